#!/bin/bash
# thorough tier for one property:
#  1. all obligations (including ensures_thorough clauses) with 120 s budgets on
#     all three solvers, which must agree on every obligation they decide;
#  2. the must-fail corpus of the property (own mutants + confirmed seeded
#     changes that the check is recorded to catch): each patch is applied to a
#     scratch copy of /repo and must make the check report a VIOLATION.
# Exit codes: 0 held, 1 VIOLATION on the tree under test, 2 machinery error
# (a must-fail patch was not caught, solver disagreement, ...).
prop=$1
out=$(/verif/bin/govc check -p "$prop" -tier thorough 2>&1); rc=$?
echo "$out"
if [ $rc -ne 0 ]; then exit $rc; fi
caught=0; missed=0; names=""
for patch in /verif/selftest/mutants/${prop}_*.patch $(python3 - "$prop" <<'PY'
import json,glob,sys
p=sys.argv[1]
for m in sorted(glob.glob('/verif/seeded/*/meta.json')):
    try: d=json.load(open(m))
    except Exception: continue
    if p in d.get('confirmed',{}).get('caught_by_checks',[]):
        print(m.replace('meta.json','patch.diff'))
PY
); do
  [ -f "$patch" ] || continue
  # only meaningful on the unchanged tree: skip a patch that does not apply
  if ! (cd /repo && git apply --check "$patch" 2>/dev/null); then echo "thorough: must-fail patch $(basename $(dirname $patch))/$(basename $patch) does not apply to the current tree: skipped"; continue; fi
  r=$(/verif/selftest/run_mutant.sh "$patch" "$prop" 2>&1); mrc=$?
  echo "thorough: $(echo "$r" | head -1)"
  if [ $mrc -eq 0 ]; then caught=$((caught+1)); else missed=$((missed+1)); fi
  names="$names $(basename $(dirname $patch))/$(basename $patch)"
done
python3 - "$prop" "$caught" "$missed" "$names" <<'PY'
import json,sys
prop,caught,missed,names=sys.argv[1],int(sys.argv[2]),int(sys.argv[3]),sys.argv[4].split()
p=f'/verif/evidence/{prop}.json'; e=json.load(open(p))
e['coverage']['must_fail_corpus']={'patches':names,'caught':caught,'missed':missed}
json.dump(e,open(p,'w'),indent=1)
PY
if [ $missed -gt 0 ]; then echo "thorough: $missed must-fail patch(es) were NOT caught: machinery error"; exit 2; fi
exit 0
