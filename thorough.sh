#!/bin/bash
# thorough tier for one property:
#  1. all obligations (including ensures_thorough clauses) with 120 s budgets on
#     all three solvers, which must agree on every obligation they decide;
#  2. the must-fail corpus of the property (own mutants + confirmed seeded
#     changes that the check is recorded to catch): each patch is applied to a
#     scratch copy of /repo and must make the check report a VIOLATION.
# Exit codes: 0 held, 1 VIOLATION on the tree under test, 2 machinery error
# (a must-fail patch was not caught, solver disagreement, ...).
prop=$1
out=$(/verif/bin/govc check -p "$prop" -tier thorough 2>&1); rc=$?
echo "$out"
if [ $rc -ne 0 ]; then exit $rc; fi
caught=0; missed=0; names=""
for patch in /verif/selftest/mutants/${prop}_*.patch $(python3 - "$prop" <<'PY'
import json,glob,sys
p=sys.argv[1]
for m in sorted(glob.glob('/verif/seeded/*/meta.json')):
    try: d=json.load(open(m))
    except Exception: continue
    if p in d.get('confirmed',{}).get('caught_by_checks',[]):
        print(m.replace('meta.json','patch.diff'))
PY
); do
  [ -f "$patch" ] || continue
  # only meaningful on the unchanged tree: skip a patch that does not apply
  # (patch(1) as in run_mutant.sh: tolerates context shifted by later fix commits)
  if ! (cd /repo && patch -p1 -s -f --dry-run < "$patch" >/dev/null 2>&1); then echo "thorough: must-fail patch $(basename $(dirname $patch))/$(basename $patch) does not apply to the current tree: skipped"; continue; fi
  r=$(/verif/selftest/run_mutant.sh "$patch" "$prop" 2>&1); mrc=$?
  echo "thorough: $(echo "$r" | head -1)"
  if [ $mrc -eq 0 ]; then caught=$((caught+1)); else missed=$((missed+1)); fi
  names="$names $(basename $(dirname $patch))/$(basename $patch)"
done
# 3. must-stay-quiet corpus: behaviour-preserving refactors of functions under
#    contract must not raise an alarm
quiet=0; alarms=0
for patch in /verif/selftest/refactors/${prop}_*.patch; do
  [ -f "$patch" ] || continue
  if ! (cd /repo && git apply --check "$patch" 2>/dev/null); then echo "thorough: refactor $(basename $patch) does not apply to the current tree: skipped"; continue; fi
  r=$(/verif/selftest/run_refactor.sh "$patch" "$prop" 2>&1); rrc=$?
  echo "thorough: $(echo "$r" | head -1)"
  if [ $rrc -eq 0 ]; then quiet=$((quiet+1)); else alarms=$((alarms+1)); fi
done
python3 - "$prop" "$caught" "$missed" "$names" "$quiet" "$alarms" <<'PY'
import json,sys
prop,caught,missed,names=sys.argv[1],int(sys.argv[2]),int(sys.argv[3]),sys.argv[4].split()
quiet,alarms=int(sys.argv[5]),int(sys.argv[6])
p=f'/verif/evidence/{prop}.json'; e=json.load(open(p))
e['coverage']['must_fail_corpus']={'patches':names,'caught':caught,'missed':missed}
e['coverage']['must_stay_quiet_corpus']={'refactors_quiet':quiet,'false_alarms':alarms}
json.dump(e,open(p,'w'),indent=1)
PY
if [ $alarms -gt 0 ]; then echo "thorough: $alarms behaviour-preserving refactor(s) raised an alarm: machinery error"; exit 2; fi
if [ $missed -gt 0 ]; then echo "thorough: $missed must-fail patch(es) were NOT caught: machinery error"; exit 2; fi
exit 0
