#!/usr/bin/env python3
"""debug helper: print model values of all scalar define-funs/consts of a dumped query"""
import re, subprocess, sys
f = sys.argv[1]; pat = re.compile(sys.argv[2]) if len(sys.argv) > 2 else None
src = open(f).read()
names = []
for m in re.finditer(r'^\((?:define-fun|declare-const) (\S+) (?:\(\) )?(\(.*?\)|\S+)', src, re.M):
    n, sort = m.group(1), m.group(2)
    if sort.startswith('(Array'): continue
    if pat and not pat.search(n): continue
    names.append(n)
q = "(set-option :produce-models true)\n" + src + "\n(get-value (" + " ".join(names) + "))\n"
open('/tmp/_m.smt2', 'w').write(q)
out = subprocess.run(['z3-new', '-smt2', '/tmp/_m.smt2'], capture_output=True, text=True, timeout=120).stdout
print(out[:6000])
