#!/usr/bin/env python3
"""Rewrites the obligation-count and quick-time columns of the table in DESIGN.md
section 10.2 from the evidence files (run after the quick checks rewrote them)."""
import json, re
p = '/verif/DESIGN.md'
s = open(p).read()
out = []
in102 = False
for line in s.split('\n'):
    if line.startswith('### 10.2'):
        in102 = True
    elif line.startswith('### 10.3'):
        in102 = False
    m = in102 and re.match(r'^\| (C\d\d) \| (.*) \| ([^|]*) \| ([^|]*) \|$', line)
    if m:
        pid = m.group(1)
        try:
            e = json.load(open(f'/verif/evidence/{pid}.json'))
            c = e['coverage']
            n = c['obligations']; kf = len(c.get('known_finding_obligations_not_counted') or [])
            cnt = f"{n}" + (f" (+{kf} known)" if kf else "")
            t = f"{max(1, round(e['wall_s']))} s"
            line = f"| {pid} | {m.group(2)} | {cnt} | {t} |"
        except Exception as ex:
            pass
    out.append(line)
open(p, 'w').write('\n'.join(out))
print("updated")
