#!/bin/bash
# dev helper: every claimed check, quick tier, without touching evidence
for p in $(python3 -c "import json;print(' '.join(c['property_id'] for c in json.load(open('/verif/MANIFEST.json'))['checks']))"); do
  out=$(/verif/bin/govc check -p $p -tier quick -noevidence 2>&1); rc=$?
  echo "$p rc=$rc $(echo "$out" | grep '^govc: property' | tail -1)"
  echo "$out" | grep '^VIOLATION\|error' | head -5
  # a clause that names a site / identifier the unchanged tree does not have is a
  # contract that silently checks nothing: must be empty here
  echo "$out" | grep 'STALE-OR-UNSUPPORTED' | grep -v 'program points unreachable' | sed 's/^/  STALE ON THE UNCHANGED TREE: /' | cut -c1-300
done
