#!/usr/bin/env python3
"""usage: mk_seed_prompts.py <round>
Writes /tmp/seed<round>-Cxx.prompt.txt for every claimed property and creates
the scratch worktrees /tmp/wt<round>-Cxx (detached, from /repo HEAD).  The
prompt carries the property text and a one-paragraph description of the
earlier seeded changes for that property (so that a new one differs); nothing
from /verif."""
import json, os, subprocess, sys, glob
r = sys.argv[1]
props = {json.loads(l)["id"]: json.loads(l) for l in open("/verif/properties.jsonl")}
claimed = [c["property_id"] for c in json.load(open("/verif/MANIFEST.json"))["checks"]]
ordinals = ["An earlier", "A second", "A third", "A fourth", "A fifth", "A sixth", "A seventh", "An eighth", "A ninth", "A tenth", "An eleventh", "A twelfth"]
for pid in claimed:
    p = props[pid]
    wt, out = f"/tmp/wt{r}-{pid}", f"/tmp/seed{r}-{pid}"
    os.makedirs(out, exist_ok=True)
    if not os.path.isdir(wt):
        subprocess.run(["git", "-C", "/repo", "worktree", "add", "--detach", "-q", wt, "HEAD"], check=True)
    txt = f"""You are helping test a verification effort by playing the role of a developer who introduces a subtle regression.

Repository: a scratch git worktree of the SigLens observability database (Go) at {wt} (you may edit files ONLY inside {wt} and write outputs to {out}; never touch /repo or /verif, and do not read /verif).
Every shell command that runs go needs: export GOFLAGS=-mod=mod GOPROXY=off GOSUMDB=off GOTOOLCHAIN=local   (the sandbox has no network).

The property below is supposed to hold for the code as it stands in {wt}:

{pid}: {p['title']}

Statement: {p['statement']}

Quantifier: {p['quantifier']['text']}

Anchored in files: {', '.join(p['anchors']['files'])}


Your task: make ONE small, realistic change to the non-test Go source in {wt} (the kind of edit a refactoring or an "optimisation" could introduce: a changed comparison operator, boundary, width, clamp, guard, order of two updates, a dropped special case, two cooperating sites that each look fine alone ...) such that
  1. the repository still compiles (go build ./... in {wt}), and
  2. the EXISTING tests still pass - at minimum `go test -vet=off -count=1` for every package you touched and the packages that directly use the changed function (run them; if a test fails, pick a different change), and
  3. the property above is now violated, but NOT in a way ordinary use would expose at once: the violation should need something specific to manifest (an unusual input or boundary value, a particular multi-step sequence of operations, a particular interleaving or fault point, or two cooperating sites).
Do not edit or add *_test.go files in the patch, do not touch files named zz_verif_*, and keep the change within the files anchored by the property if you can.

Deliverables, written to {out}:
  - patch.diff : `git -C {wt} diff` of your change (source only, no test files).
  - a demonstration: a Go test file demo_test.go (state in meta.json which package directory it must be copied into, it must be an in-package or external test that compiles there) or a small program, which FAILS with your change applied and PASSES on the unchanged code. Verify both directions yourself (save the diff with `git diff > {out}/patch.diff`, then `git apply -R` / `git apply` it; do NOT use git stash, the stash is shared with other worktrees).
  - meta.json : {{"property": "ID", "files_changed": [...], "what_changed": "...", "why_it_breaks_the_property": "...", "needs_to_manifest": "...", "demo_pkg_dir": "pkg/...", "demo_run_cmd": "go test -vet=off -count=1 -run <Name> ./pkg/...", "tests_run": ["..."]}}
Leave your change applied in {wt} when you finish (uncommitted) and do not leave demo_test.go inside {wt} (it belongs in {out} only). Keep your final answer short: what you changed and the demo result in both directions.

"""
    prev = sorted(glob.glob(f"/verif/seeded/{pid}-*/meta.json"))
    for k, m in enumerate(prev):
        d = json.load(open(m))
        files = ", ".join(d.get("files_changed", []))
        what = (d.get("what_changed") or "")[:520]
        txt += f"\n{ordinals[min(k, len(ordinals)-1)]} regression for this property has already been studied; choose a DIFFERENT function/file and a different kind of mistake than this one:\n  {files}: {what}\n"
    txt += "\nPrefer a part of the property statement (a clause, a data type, an operation, a file anchored by the property) that none of the earlier regressions touched; arithmetic, boundary, ordering, bookkeeping and state-machine mistakes inside one function (or two cooperating functions) are the most interesting.\n"
    open(f"/tmp/seed{r}-{pid}.prompt.txt", "w").write(txt)
    print(pid, len(prev), "earlier")
