#!/bin/bash
# usage: run_refactor.sh <patch> <property>
# Applies a behaviour-preserving patch to a scratch copy of /repo and expects
# the property check to stay quiet (exit 0, no VIOLATION line).
set -u
patch=$(readlink -f "$1"); prop=$2
scratch=$(mktemp -d /var/tmp/govc-ref-XXXXXX)
trap 'rm -rf "$scratch"' EXIT
rsync -a --exclude .git /repo/ "$scratch/"
if ! (cd "$scratch" && patch -p1 -s < "$patch"); then echo "REFACTOR $(basename $patch): patch does not apply"; exit 3; fi
if ! (cd "$scratch" && GOFLAGS=-mod=mod GOPROXY=off GOSUMDB=off GOTOOLCHAIN=local go build ./... >/dev/null 2>&1); then echo "REFACTOR $(basename $patch): does not build"; exit 3; fi
out=$(/verif/bin/govc check -p "$prop" -repo "$scratch" -verif /verif -noevidence 2>&1); rc=$?
if [ $rc -eq 0 ] && ! echo "$out" | grep -q '^VIOLATION'; then
  echo "REFACTOR $(basename $patch): quiet ($(echo "$out" | grep -c 'STALE-OR-UNSUPPORTED') stale/unsupported notes)"; exit 0
fi
echo "REFACTOR $(basename $patch): FALSE ALARM (rc=$rc)"; echo "$out" | grep '^VIOLATION\|error' | head -5 | sed 's/^/    /'
exit 1
