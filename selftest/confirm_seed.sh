#!/bin/bash
# usage: confirm_seed.sh <seed-dir> <name>   e.g. /tmp/seed-C02 C02-a
# Confirms a seeded regression in a scratch copy of /repo: builds, demo passes
# without / fails with the patch, tests of the touched packages still pass;
# then runs every claimed check against the patched copy.  Stores the seed
# under /verif/seeded/<name>/ when confirmed.
set -u
src=$1; name=$2
export GOFLAGS=-mod=mod GOPROXY=off GOSUMDB=off GOTOOLCHAIN=local
scratch=$(mktemp -d /var/tmp/govc-seed-XXXXXX)
trap 'rm -rf "$scratch"' EXIT
rsync -a --exclude .git /repo/ "$scratch/"
meta="$src/meta.json"
pkgdir=$(python3 -c "import json;print(json.load(open('$meta'))['demo_pkg_dir'])")
runcmd=$(python3 -c "import json;print(json.load(open('$meta'))['demo_run_cmd'])")
demo=$(ls $src/*_test.go | head -1)
cp "$demo" "$scratch/$pkgdir/zz_seed_demo_test.go"
cd "$scratch"
echo "== demo on unchanged code"; (eval "$runcmd" 2>&1 | grep -v level= | tail -3); r0=${PIPESTATUS[0]}
if ! patch -p1 -s < "$src/patch.diff"; then echo "PATCH DOES NOT APPLY"; exit 3; fi
echo "== build"; go build ./... 2>&1 | tail -3
echo "== demo with patch"; out=$(eval "$runcmd" 2>&1); r1=$?; echo "$out" | grep -v level= | tail -4
touched=$(grep '^+++ b/' "$src/patch.diff" | sed 's|+++ b/||' | xargs -n1 dirname | sort -u | sed 's|^|./|')
echo "== existing tests of touched packages: $touched"
rm -f "$scratch/$pkgdir/zz_seed_demo_test.go"
tout=$(go test -vet=off -count=1 $touched 2>&1); tr=$?; echo "$tout" | grep -v level= | tail -4
echo "== checks against the patched copy"
caught=""
for p in ${CHECKS:-$(python3 -c "import json;print(' '.join(c['property_id'] for c in json.load(open('/verif/MANIFEST.json'))['checks']))")}; do
  o=$(/verif/bin/govc check -p $p -repo "$scratch" -noevidence 2>&1); rc=$?
  if [ $rc -eq 1 ]; then caught="$caught $p"; echo "  $p: VIOLATION"; echo "$o" | grep '^VIOLATION' | head -2 | sed 's/^/      /'; elif [ $rc -ne 0 ]; then echo "  $p: rc=$rc"; echo "$o" | tail -2 | sed 's/^/      /'; fi
done
echo "== summary: demo_unchanged_rc=$r0 demo_patched_rc=$r1 tests_rc=$tr caught_by:[$caught ]"
mkdir -p /verif/seeded/$name
cp "$src/patch.diff" "$src/meta.json" "$demo" /verif/seeded/$name/ 2>/dev/null
python3 - "$name" "$r0" "$r1" "$tr" "$caught" <<'PY'
import json,sys
name,r0,r1,tr,caught=sys.argv[1:6]
p=f'/verif/seeded/{name}/meta.json'; m=json.load(open(p))
m['confirmed']={'demo_passes_unchanged': r0=='0', 'demo_fails_patched': r1!='0', 'existing_tests_pass_patched': tr=='0', 'caught_by_checks': caught.split()}
json.dump(m,open(p,'w'),indent=1)
PY
