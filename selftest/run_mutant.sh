#!/bin/bash
# usage: run_mutant.sh <patch> <property> [expected-obligation-substring]
# Applies the patch to a scratch copy of /repo, runs the property check
# against it and expects a VIOLATION (exit 1).  Removes the copy afterwards.
set -u
patch=$(readlink -f "$1"); prop=$2; expect=${3:-}
scratch=$(mktemp -d /var/tmp/govc-mut-XXXXXX)
trap 'rm -rf "$scratch"' EXIT
rsync -a --exclude .git /repo/ "$scratch/"
if ! (cd "$scratch" && patch -p1 -s < "$patch"); then echo "MUTANT $(basename $patch): patch does not apply"; exit 3; fi
out=$(/verif/bin/govc check -p "$prop" -repo "$scratch" -verif /verif -noevidence ${GOVC_FLAGS:-} 2>&1); rc=$?
if [ $rc -eq 1 ] && echo "$out" | grep -q "^VIOLATION property=$prop" && { [ -z "$expect" ] || echo "$out" | grep "^VIOLATION" | grep -q -- "$expect"; }; then
  echo "MUTANT $(basename $patch): caught ($(echo "$out" | grep -c '^VIOLATION') violation lines)"; echo "$out" | grep '^VIOLATION' | head -3 | sed 's/^/    /'
  exit 0
fi
echo "MUTANT $(basename $patch): MISSED (rc=$rc)"; echo "$out" | tail -5 | sed 's/^/    /'
exit 1
