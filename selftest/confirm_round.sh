#!/bin/bash
# usage: confirm_round.sh <round> [props...]   confirms /tmp/seed<round>-Cxx as Cxx-<round>, 4 at a time
r=$1; shift
props=${@:-C01 C02 C03 C04 C05 C06 C08 C09 C10 C13 C14 C15 C16 C18 C19 C20}
mkdir -p /var/tmp/confirm$r
export GOVC_PREFER_MIRROR=1
n=0
for p in $props; do
  [ -f /tmp/seed$r-$p/patch.diff ] || { echo "$p: no patch yet"; continue; }
  (CHECKS=$p /verif/selftest/confirm_seed.sh /tmp/seed$r-$p $p-$r > /var/tmp/confirm$r/$p.log 2>&1 &)
  n=$((n+1)); if [ $((n%4)) -eq 0 ]; then sleep 75; fi
done
sleep 120
for p in $props; do [ -f /var/tmp/confirm$r/$p.log ] && echo "$p: $(grep '== summary' /var/tmp/confirm$r/$p.log)"; done
