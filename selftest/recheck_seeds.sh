#!/bin/bash
# Re-runs every stored seed against the check of its own property (scratch copy
# of /repo per seed) and records the outcome in the seed's meta.json
# (confirmed.caught_by_checks), which thorough.sh uses as its must-fail corpus.
# usage: recheck_seeds.sh [parallelism, default 3]
cd /verif
par=${1:-3}
one() {
  d=$1; name=$(basename $d); prop=${name%%-*}
  tmp=$(mktemp /var/tmp/recheck.XXXXXX)
  ./selftest/run_mutant.sh $d/patch.diff $prop >$tmp 2>&1; rc=$?
  # run_mutant applies with patch(1) (tolerates shifted context after later fix commits); 3 = does not apply
  if [ $rc -eq 3 ]; then echo "$name: patch does not apply to the current tree (skipped)"; rm -f $tmp; return; fi
  if [ $rc -eq 0 ]; then res=caught; else res=missed; fi
  echo "$name: $res $(grep -m1 VIOLATION $tmp | sed 's/.*obligation=//' | cut -c1-120)"
  python3 - "$d/meta.json" "$prop" "$res" <<'PY'
import json,sys
p,prop,res=sys.argv[1:4]
m=json.load(open(p)); c=m.setdefault('confirmed',{})
cb=set(c.get('caught_by_checks',[]))
if res=='caught': cb.add(prop)
else: cb.discard(prop)
c['caught_by_checks']=sorted(cb)
json.dump(m,open(p,'w'),indent=1)
PY
  rm -f $tmp
}
export -f one
ls -d seeded/*/ | sed 's|/$||' | xargs -P $par -I{} bash -c 'one {}'
