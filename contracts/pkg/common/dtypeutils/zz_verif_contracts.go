//go:build verif

package dtypeutils

//@ func (*TimeRange).CheckInRange
//@   props C02 C03
//@   requires tsVal != nil
//@   ensures result == (tsVal.StartEpochMs <= timeStamp && timeStamp <= tsVal.EndEpochMs)
//@   pure
//@   safe
//@ end

//@ func (*TimeRange).CheckRangeOverLap
//@   props C02 C03
//@   requires tsVal != nil
//@   requires tsVal.StartEpochMs <= tsVal.EndEpochMs && earliest_ts <= latest_ts
//@   ensures result == (earliest_ts <= tsVal.EndEpochMs && latest_ts >= tsVal.StartEpochMs)
//@   pure
//@   safe
//@ end
