//go:build verif

package alertutils

//@ func IsAlertStatePendingOrFiring
//@   props C20
//@   ensures result == (alertState == Pending || alertState == Firing)
//@   pure
//@   safe
//@ end
