//go:build verif

package utils

// Property-level lemmas (C01: every value codec pair is inverse).  Each lemma
// is a Go function whose body calls the real functions; govc proves
// `ensures result` from the callees' contracts only (modular), and a
// counterexample is replayed by running the function itself.

//@ func verifLemmaInt64RoundTrip
//@   props C01
//@   lemma
//@   requires len(buf) >= 8
//@   ensures result
//@ end
func verifLemmaInt64RoundTrip(v int64, buf []byte) bool {
	Int64ToBytesLittleEndianInplace(v, buf)
	return BytesToInt64LittleEndian(buf) == v
}

//@ func verifLemmaUint64RoundTrip
//@   props C01
//@   lemma
//@   requires len(buf) >= 8
//@   ensures result
//@ end
func verifLemmaUint64RoundTrip(v uint64, buf []byte) bool {
	Uint64ToBytesLittleEndianInplace(v, buf)
	return BytesToUint64LittleEndian(buf) == v
}

//@ func verifLemmaFloat64RoundTrip
//@   props C01
//@   lemma
//@   requires len(buf) >= 8 && !isNaN(v)
//@   ensures result
//@ end
func verifLemmaFloat64RoundTrip(v float64, buf []byte) bool {
	Float64ToBytesLittleEndianInplace(v, buf)
	return BytesToFloat64LittleEndian(buf) == v
}

//@ func verifLemmaInt32RoundTrip
//@   props C01
//@   lemma
//@   requires len(buf) >= 4
//@   ensures result
//@ end
func verifLemmaInt32RoundTrip(v int32, buf []byte) bool {
	Int32ToBytesLittleEndianInplace(v, buf)
	return BytesToInt32LittleEndian(buf) == v
}

//@ func verifLemmaUint32RoundTrip
//@   props C01
//@   lemma
//@   requires len(buf) >= 4
//@   ensures result
//@ end
func verifLemmaUint32RoundTrip(v uint32, buf []byte) bool {
	Uint32ToBytesLittleEndianInplace(v, buf)
	return BytesToUint32LittleEndian(buf) == v
}

//@ func verifLemmaInt16RoundTrip
//@   props C01
//@   lemma
//@   requires len(buf) >= 2
//@   ensures result
//@ end
func verifLemmaInt16RoundTrip(v int16, buf []byte) bool {
	Int16ToBytesLittleEndianInplace(v, buf)
	return BytesToInt16LittleEndian(buf) == v
}

//@ func verifLemmaUint16RoundTrip
//@   props C01
//@   lemma
//@   requires len(buf) >= 2
//@   ensures result
//@ end
func verifLemmaUint16RoundTrip(v uint16, buf []byte) bool {
	Uint16ToBytesLittleEndianInplace(v, buf)
	return BytesToUint16LittleEndian(buf) == v
}
