//go:build verif

package aggregations

// Contracts checked by /verif/bin/govc (see /verif/DESIGN.md).  Comment-only.

//@ func FindTimeRangeBucket
//@   props C04
//@   mode int
//@   requires r != nil && r.step > 0 && r.start <= r.end
//@   requires r.start <= timestamp && timestamp <= r.end
//@   ensures [aligned] (result - r.start) % r.step == 0
//@   ensures [contains] result <= timestamp && timestamp - result < r.step
//@   safe
//@ end
