//go:build verif

package aggregations

// Contracts checked by /verif/bin/govc (see /verif/DESIGN.md).  Comment-only.

//@ func FindTimeRangeBucket
//@   props C04
//@   mode int
//@   requires r != nil && r.step > 0 && r.start <= r.end
//@   requires r.start <= timestamp
//@   ensures [aligned] (result - r.start) % r.step == 0
//@   ensures [contains] implies(timestamp < r.end, result <= timestamp && timestamp - result < r.step)
//@   ensures [last-bucket] implies(timestamp >= r.end && r.start < r.end, result < r.end && r.end - result <= r.step)
//@   ensures [in-range] r.start <= result
//@   pure
//@   safe
//@ end
