#!/bin/bash
# Copies the contract mirror (/verif/contracts/pkg/...) into /repo and commits
# each changed package separately (hook commits, build tag verif).
set -e
cd /verif/contracts
find pkg -name 'zz_verif_*.go' | sort | while read f; do
  mkdir -p "/repo/$(dirname $f)"
  if ! cmp -s "$f" "/repo/$f"; then cp "$f" "/repo/$f"; fi
done
cd /repo
for d in $(git status --porcelain | awk '{print $2}' | grep 'zz_verif_' | xargs -n1 dirname | sort -u); do
  git add "$d"/zz_verif_*.go
  git commit -q -m "verif: contracts for $d (build tag verif, comment/lemma only)" -- "$d"/zz_verif_*.go
  echo "committed $d"
done
