package dashboards

// BOUNDED stand-in (not a proof), C20: a folder can be moved below a new parent
// unless that parent lies in the folder's own subtree.  For EVERY parent
// function over 6 folders (each folder's parent is "", one of the 6 folders —
// itself included — or an id that is not in the structure: 8^6 structures),
// every folder to move and every new parent (the 6 folders, "", the unknown id):
//   - the folder is the new parent or one of its ancestors  =>  the move is refused;
//   - the ancestor chain of the new parent ends (at "" or at an unknown id)
//     without meeting the folder                              =>  the move is allowed;
//   - the chain runs into a cycle that does not contain the folder: the call
//     must still terminate (either answer is accepted).
// The ancestor relation is a transitive closure over a string-keyed map, which
// the verifier's quantifier-free loop invariants do not express.

import (
	"fmt"
	"testing"
)

func Test_Bounded_WouldCreateCircularReference(t *testing.T) {
	ids := []string{"f0", "f1", "f2", "f3", "f4", "f5"}
	const n = 6
	opts := append(append([]string{""}, ids...), "not-in-structure")
	targets := append(append([]string{}, ids...), "", "not-in-structure")
	calls := 0
	parent := make([]int, n)
	total := 1
	for i := 0; i < n; i++ {
		total *= len(opts)
	}
	for code := 0; code < total; code++ {
		c := code
		st := &FolderStructure{Items: map[string]StoredFolderItem{}, Order: map[string][]string{}}
		for i := 0; i < n; i++ {
			parent[i] = c % len(opts)
			c /= len(opts)
			st.Items[ids[i]] = StoredFolderItem{Name: ids[i], Type: "folder", ParentID: opts[parent[i]]}
		}
		for _, folder := range ids {
			for _, np := range targets {
				// oracle: walk up from the new parent, at most n+1 steps
				onChain, ended := false, false
				cur := np
				for step := 0; step <= n+1; step++ {
					if cur == "" {
						ended = true
						break
					}
					if cur == folder {
						onChain = true
						break
					}
					it, ok := st.Items[cur]
					if !ok {
						ended = true
						break
					}
					cur = it.ParentID
				}
				calls++
				got := wouldCreateCircularReference(folder, np, st)
				if onChain && !got {
					t.Fatalf("BOUNDED-FAIL parents %v: moving %s below %s was allowed although %s is %s or one of its ancestors", describeParents(ids, opts, parent), folder, np, folder, np)
				}
				if !onChain && ended && got {
					t.Fatalf("BOUNDED-FAIL parents %v: moving %s below %s was refused although %s is not among the ancestors of %s", describeParents(ids, opts, parent), folder, np, folder, np)
				}
			}
		}
	}
	fmt.Printf("BOUNDED-OK %d calls over %d structures\n", calls, total)
}

func describeParents(ids, opts []string, parent []int) string {
	s := ""
	for i, id := range ids {
		s += fmt.Sprintf("%s<-%q ", id, opts[parent[i]])
	}
	return s
}
