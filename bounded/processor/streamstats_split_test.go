package processor

import (
	"fmt"
	"testing"

	"github.com/siglens/siglens/pkg/segment/query/iqr"
	"github.com/siglens/siglens/pkg/segment/structs"
	sutils "github.com/siglens/siglens/pkg/segment/utils"
	"github.com/stretchr/testify/require"
)

// BOUNDED stand-in (not a proof), C06: streamstats gives every event the same value however the stream of
// events is cut into batches.  Each variant is run once over all rows in one
// batch and once for every way of cutting the same rows into two batches.
func Test_Bounded_StreamstatsBatchSplit(t *testing.T) {
	methods := []string{"GET", "GET", "GET", "POST", "POST", "GET", "GET", "GET"}
	lat := []float64{1, 2, 4, 8, 16, 32, 64, 128}
	n := len(methods)
	rows := func(lo, hi int) map[string][]sutils.CValueEnclosure {
		m := map[string][]sutils.CValueEnclosure{"http_method": {}, "latency": {}}
		for i := lo; i < hi; i++ {
			m["http_method"] = append(m["http_method"], sutils.CValueEnclosure{Dtype: sutils.SS_DT_STRING, CVal: methods[i]})
			m["latency"] = append(m["latency"], sutils.CValueEnclosure{Dtype: sutils.SS_DT_FLOAT, CVal: lat[i]})
		}
		return m
	}
	sum := []*structs.MeasureAggregator{{MeasureCol: "latency", MeasureFunc: sutils.Sum}}
	variants := map[string]func() *structs.StreamStatsOptions{
		"window=3 sum(latency)": func() *structs.StreamStatsOptions {
			return &structs.StreamStatsOptions{Window: 3, Current: true, Global: true, MeasureOperations: sum}
		},
		"reset_on_change=true sum(latency) by http_method": func() *structs.StreamStatsOptions {
			return &structs.StreamStatsOptions{ResetOnChange: true, Current: true, Global: true, MeasureOperations: sum,
				GroupByRequest: &structs.GroupByRequest{GroupByColumns: []string{"http_method"}, MeasureOperations: sum}}
		},
	}
	run := func(opts *structs.StreamStatsOptions, cuts []int) []string {
		p := &streamstatsProcessor{options: opts}
		var out []string
		lo := 0
		for _, hi := range append(cuts, n) {
			in := iqr.NewIQR(0)
			require.NoError(t, in.AppendKnownValues(rows(lo, hi)))
			res, err := p.Process(in)
			require.NoError(t, err)
			vals, err := res.ReadColumn("sum(latency)")
			require.NoError(t, err)
			for _, v := range vals {
				out = append(out, fmt.Sprint(v.CVal))
			}
			lo = hi
		}
		return out
	}
	for name, mk := range variants {
		whole := run(mk(), nil)
		for cut := 1; cut < n; cut++ {
			split := run(mk(), []int{cut})
			if fmt.Sprint(split) != fmt.Sprint(whole) {
				t.Errorf("BOUNDED-FAIL streamstats %s: one batch gives %v, batches [0,%d)+[%d,%d) give %v", name, whole, cut, cut, n, split)
			}
		}
	}
}
