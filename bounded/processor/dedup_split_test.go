package processor

// BOUNDED stand-in (not a proof), C06: dedup gives the same rows however the
// stream is cut into batches.  Every stream of length <= 5 over the values
// {a,b,c}, plain and consecutive=true, limit 1 and 2, is run once as one batch
// and once for every way of cutting it into two batches (the same processor
// instance sees the batches in order); the kept rows must be identical.
// Independent of how the processor remembers runs, so it also decides a
// restructured body whose loop contract went stale.

import (
	"fmt"
	"testing"

	"github.com/siglens/siglens/pkg/segment/query/iqr"
	"github.com/siglens/siglens/pkg/segment/structs"
	sutils "github.com/siglens/siglens/pkg/segment/utils"
)

func Test_Bounded_DedupBatchSplit(t *testing.T) {
	vals := []string{"a", "b", "c"}
	run := func(stream []string, cuts []int, consecutive bool, limit uint64) string {
		p := &dedupProcessor{options: &structs.DedupExpr{Limit: limit, FieldList: []string{"k"},
			DedupOptions: &structs.DedupOptions{Consecutive: consecutive}}}
		out := ""
		lo := 0
		for _, hi := range append(append([]int{}, cuts...), len(stream)) {
			if hi == lo {
				continue
			}
			in := iqr.NewIQR(0)
			col := make([]sutils.CValueEnclosure, 0, hi-lo)
			idx := make([]sutils.CValueEnclosure, 0, hi-lo)
			for i := lo; i < hi; i++ {
				col = append(col, sutils.CValueEnclosure{Dtype: sutils.SS_DT_STRING, CVal: stream[i]})
				idx = append(idx, sutils.CValueEnclosure{Dtype: sutils.SS_DT_SIGNED_NUM, CVal: int64(i)})
			}
			if err := in.AppendKnownValues(map[string][]sutils.CValueEnclosure{"k": col, "pos": idx}); err != nil {
				t.Fatalf("AppendKnownValues: %v", err)
			}
			res, err := p.Process(in)
			if err != nil {
				t.Fatalf("Process: %v", err)
			}
			if res != nil {
				kept, err := res.ReadColumn("pos")
				if err != nil {
					t.Fatalf("ReadColumn: %v", err)
				}
				for _, v := range kept {
					out += fmt.Sprint(v.CVal) + ","
				}
			}
			lo = hi
		}
		return out
	}
	inputs := 0
	var rec func(stream []string)
	rec = func(stream []string) {
		if len(stream) >= 2 {
			for _, consecutive := range []bool{false, true} {
				for _, limit := range []uint64{1, 2} {
					whole := run(stream, nil, consecutive, limit)
					for cut := 1; cut < len(stream); cut++ {
						inputs++
						if split := run(stream, []int{cut}, consecutive, limit); split != whole {
							t.Fatalf("BOUNDED-FAIL dedup consecutive=%v limit=%d over %v: one batch keeps rows %s, batches [0,%d)+[%d,%d) keep rows %s",
								consecutive, limit, stream, whole, cut, cut, len(stream), split)
						}
					}
				}
			}
		}
		if len(stream) == 5 {
			return
		}
		for _, v := range vals {
			rec(append(append([]string{}, stream...), v))
		}
	}
	rec(nil)
	fmt.Printf("BOUNDED-OK %d split comparisons\n", inputs)
}
