package alertsHandler

// BOUNDED stand-in (not a proof), C20: an alert on a `stats ... BY ...` result
// that comes back as records fires iff some record's measure value satisfies the
// condition — whatever the rename map of the response holds.  Rename maps: none,
// only an unrelated column, only the measure column, both; 1 or 2 records; the
// measure value below / at / above the threshold as number or humanized string;
// three conditions.  The column resolution is string-keyed map work, outside
// the verifier's model.

import (
	"fmt"
	"testing"

	"github.com/siglens/siglens/pkg/alerts/alertutils"
	"github.com/siglens/siglens/pkg/segment/structs"
)

func Test_Bounded_RecordsMeasureAlertCondition(t *testing.T) {
	type rep struct {
		name string
		val  func(v float64) interface{}
	}
	reps := []rep{
		{"float64", func(v float64) interface{} { return v }},
		{"string", func(v float64) interface{} { return fmt.Sprintf("%v", v) }},
		{"humanized", func(v float64) interface{} {
			if v >= 1000 {
				return fmt.Sprintf("%d,%03d", int(v)/1000, int(v)%1000)
			}
			return fmt.Sprintf("%v", v)
		}},
	}
	type rn struct {
		name        string
		m           map[string]string
		measureName string // the name the records carry
	}
	renames := []rn{
		{"no rename", nil, "errors"},
		{"unrelated rename", map[string]string{"host": "server"}, "errors"},
		{"measure renamed", map[string]string{"errors": "errs"}, "errs"},
		{"both renamed", map[string]string{"host": "server", "errors": "errs"}, "errs"},
	}
	conds := []alertutils.AlertQueryCondition{alertutils.IsAbove, alertutils.IsBelow, alertutils.IsEqualTo}
	holds := func(c alertutils.AlertQueryCondition, v, thr float64) bool {
		switch c {
		case alertutils.IsAbove:
			return v > thr
		case alertutils.IsBelow:
			return v < thr
		default:
			return v == thr
		}
	}
	const thr = 1500.0
	values := []float64{250, 1500, 2750}
	inputs := 0
	for _, r := range renames {
		for _, rp := range reps {
			for ci := range conds {
				for _, v1 := range values {
					for _, v2 := range append([]float64{-1}, values...) { // -1: a single record
						hits := []map[string]interface{}{{"host": "a", r.measureName: rp.val(v1)}}
						want := holds(conds[ci], v1, thr)
						if v2 >= 0 {
							hits = append(hits, map[string]interface{}{"host": "b", r.measureName: rp.val(v2)})
							want = want || holds(conds[ci], v2, thr)
						}
						var rm map[string]string
						if r.m != nil {
							rm = map[string]string{}
							for k, v := range r.m {
								rm[k] = v
							}
						}
						resp := &structs.PipeSearchResponseOuter{
							Hits:                   structs.PipeSearchResponse{Hits: hits},
							MeasureAggregationCols: []string{"errors"},
							RenameColumns:          rm,
						}
						inputs++
						cond := conds[ci]
						got, err := evaluateRecordsMeasureAggsAlertCondition(resp, &cond, thr)
						if err != nil {
							t.Fatalf("BOUNDED-FAIL %s, %s, condition %v, values %v/%v: error %v", r.name, rp.name, conds[ci], v1, v2, err)
						}
						if got != want {
							t.Fatalf("BOUNDED-FAIL %s, %s values, condition %v against %v, record values %v/%v: matched=%v, want %v", r.name, rp.name, conds[ci], thr, v1, v2, got, want)
						}
					}
				}
			}
		}
	}
	fmt.Printf("BOUNDED-OK %d evaluations\n", inputs)
}
