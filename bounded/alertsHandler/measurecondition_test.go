package alertsHandler

// BOUNDED stand-in (not a proof), C20: the alert condition of a grouped-measure
// result is evaluated on the NUMERIC value of every bucket, however the stats
// pipeline delivers that value: as float64 / int64 / uint64, as a plain decimal
// string, or as a humanized string with thousands separators.  12 values x 6
// representations where applicable x 3 conditions x thresholds just below, at
// and just above the value, in the first and in the second bucket: the verdict
// equals the comparison of the numbers.  The value is parsed from its text
// form, outside the verifier's string model.

import (
	"fmt"
	"strconv"
	"testing"

	"github.com/dustin/go-humanize"
	"github.com/siglens/siglens/pkg/alerts/alertutils"
	"github.com/siglens/siglens/pkg/segment/structs"
)

func Test_Bounded_MeasureAlertCondition(t *testing.T) {
	mk := func(vals ...interface{}) *structs.PipeSearchResponseOuter {
		resp := &structs.PipeSearchResponseOuter{MeasureFunctions: []string{"count(*)"}}
		for _, v := range vals {
			resp.MeasureResults = append(resp.MeasureResults, &structs.BucketHolder{
				GroupByValues: []string{"g"},
				MeasureVal:    map[string]interface{}{"count(*)": v},
			})
		}
		return resp
	}
	conds := []alertutils.AlertQueryCondition{alertutils.IsAbove, alertutils.IsBelow, alertutils.IsEqualTo}
	holds := func(c alertutils.AlertQueryCondition, v, th float64) bool {
		switch c {
		case alertutils.IsAbove:
			return v > th
		case alertutils.IsBelow:
			return v < th
		default:
			return v == th
		}
	}
	ints := []int64{0, 7, 999, 1000, 1500, 12345, 999999, 1000000, 2345678, 1234567890}
	inputs := 0
	for _, n := range ints {
		f := float64(n)
		reprs := []interface{}{f, n, uint64(n), strconv.FormatInt(n, 10), humanize.Comma(n), humanize.CommafWithDigits(f+0.5, 3)}
		vals := []float64{f, f, f, f, f, f + 0.5}
		for ri, r := range reprs {
			for _, c := range conds {
				for _, th := range []float64{vals[ri] - 1, vals[ri], vals[ri] + 1} {
					for _, second := range []bool{false, true} {
						inputs++
						cond := c
						resp := mk(r)
						want := holds(c, vals[ri], th)
						if second {
							// a first bucket that never satisfies the condition by itself
							filler := interface{}(th)
							if c == alertutils.IsEqualTo {
								filler = th + 12345
							}
							resp = mk(filler, r)
						}
						got, err := evaluateMeasureResultsAlertCondition(resp, &cond, th)
						if err != nil {
							t.Fatalf("BOUNDED-FAIL value %v (%T) condition %v threshold %v: error %v", r, r, c, th, err)
						}
						if got != want {
							t.Fatalf("BOUNDED-FAIL value %v (%T, number %v) condition %v threshold %v second-bucket=%v: matched=%v, want %v", r, r, vals[ri], c, th, second, got, want)
						}
					}
				}
			}
		}
	}
	fmt.Printf("BOUNDED-OK %d evaluations\n", inputs)
}
