package virtualtable

// BOUNDED stand-in (not a proof), C13: deleting an index of an organisation
// removes exactly that name from the organisation's table list.  For every
// non-empty subset of 5 names that are prefixes / suffixes / infixes of each
// other ("logs", "prod-logs", "logs-prod", "og", "audit") registered for one
// organisation (and all 5 for a second organisation), every registered name is
// deleted in turn: afterwards the list is the subset minus that name, and the
// second organisation's list is untouched.  The list is a text file rewritten
// by string operations, outside the verifier's string model.

import (
	"fmt"
	"sort"
	"strings"
	"testing"

	"github.com/siglens/siglens/pkg/config"
)

func Test_Bounded_DeleteVirtualTable(t *testing.T) {
	all := []string{"logs", "prod-logs", "logs-prod", "og", "audit"}
	inputs := 0
	listOf := func(org int64) string {
		got, err := GetVirtualTableNames(org)
		if err != nil {
			t.Fatalf("GetVirtualTableNames(%d): %v", org, err)
		}
		var names []string
		for n := range got {
			names = append(names, n)
		}
		sort.Strings(names)
		return strings.Join(names, ",")
	}
	for mask := 1; mask < 1<<len(all); mask++ {
		var subset []string
		for i, n := range all {
			if mask&(1<<i) != 0 {
				subset = append(subset, n)
			}
		}
		for _, victim := range subset {
			inputs++
			config.InitializeDefaultConfig(t.TempDir())
			if err := InitVTable(func() []int64 { return []int64{0, 7} }); err != nil {
				t.Fatalf("InitVTable: %v", err)
			}
			for _, n := range subset {
				name := n
				if err := AddVirtualTable(&name, 7); err != nil {
					t.Fatalf("AddVirtualTable(%q): %v", n, err)
				}
			}
			for _, n := range all {
				name := n
				if err := AddVirtualTable(&name, 0); err != nil {
					t.Fatalf("AddVirtualTable(%q, 0): %v", n, err)
				}
			}
			otherBefore := listOf(0)
			v := victim
			if err := DeleteVirtualTable(&v, 7); err != nil {
				t.Fatalf("BOUNDED-FAIL DeleteVirtualTable(%q) with %v registered: %v", victim, subset, err)
			}
			var want []string
			for _, n := range subset {
				if n != victim {
					want = append(want, n)
				}
			}
			sort.Strings(want)
			if got := listOf(7); got != strings.Join(want, ",") {
				t.Fatalf("BOUNDED-FAIL deleting %q from %v leaves [%s], want %v", victim, subset, got, want)
			}
			if got := listOf(0); got != otherBefore {
				t.Fatalf("BOUNDED-FAIL deleting %q of organisation 7 changed organisation 0's list from [%s] to [%s]", victim, otherBefore, got)
			}
		}
	}
	fmt.Printf("BOUNDED-OK %d deletions\n", inputs)
}
