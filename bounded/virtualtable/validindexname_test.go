package virtualtable

// BOUNDED stand-in (not a proof), C19: the index-name validator — the one thing
// every "index name -> path" site relies on — accepts a name exactly when it is a
// plain file name: not empty, not "." or "..", at most MaxIndexNameLength bytes,
// and without '/', '\', NUL, LF or CR ANYWHERE in it.  Every string of up to 4
// bytes over the alphabet { / \ NUL LF CR . a - } (4680 strings), each of them
// also embedded at the start, in the middle and at the end of a longer plain
// name, and names of length MaxIndexNameLength-1 .. +1.  The validator is string
// processing (strings.ContainsAny), outside the verifier's string model; its
// meaning is what the deductive C19 contracts ASSUME as safeName.

import (
	"fmt"
	"strings"
	"testing"
)

func Test_Bounded_IsValidIndexName(t *testing.T) {
	alphabet := []byte{'/', '\\', 0, '\n', '\r', '.', 'a', '-'}
	oracle := func(s string) bool {
		if s == "" || s == "." || s == ".." || len(s) > MaxIndexNameLength {
			return false
		}
		for i := 0; i < len(s); i++ {
			switch s[i] {
			case '/', '\\', 0, '\n', '\r':
				return false
			}
		}
		return true
	}
	inputs := 0
	check := func(s string) {
		inputs++
		if got, want := IsValidIndexName(s), oracle(s); got != want {
			t.Fatalf("BOUNDED-FAIL IsValidIndexName(%q) = %v, want %v", s, got, want)
		}
	}
	var rec func(prefix []byte, n int)
	rec = func(prefix []byte, n int) {
		s := string(prefix)
		check(s)
		if s != "" {
			check(s + "logs-2024")
			check("logs-" + s + "-2024")
			check("logs-2024" + s)
		}
		if n == 0 {
			return
		}
		for _, c := range alphabet {
			rec(append(append([]byte{}, prefix...), c), n-1)
		}
	}
	rec(nil, 4)
	for _, l := range []int{MaxIndexNameLength - 1, MaxIndexNameLength, MaxIndexNameLength + 1} {
		check(strings.Repeat("a", l))
		check(strings.Repeat("a", l-1) + "/")
		check("/" + strings.Repeat("a", l-1))
	}
	fmt.Printf("BOUNDED-OK %d names\n", inputs)
}
