package utils

// Bounded stand-in for C05 (newest-first merge of per-segment runs): the
// generic k-way merge utils.MergeSortedSlices is outside the verifier's subset
// (type parameter, function-valued comparator).  This harness runs the REAL
// function on every input within the stated bound and checks that the result
// is ordered by `less` and is a permutation of the inputs.
// Bound: k <= 3 input slices, each a non-decreasing sequence of length <= 3
// over the values 0..3 (35^3 = 42875 inputs), for both comparators (<, >).

import (
	"sort"
	"testing"
)

func boundedSortedSeqs(maxLen, maxVal int) [][]int {
	res := [][]int{{}}
	var rec func(cur []int, from int)
	rec = func(cur []int, from int) {
		if len(cur) == maxLen {
			return
		}
		for v := from; v <= maxVal; v++ {
			next := append(append([]int{}, cur...), v)
			res = append(res, next)
			rec(next, v)
		}
	}
	rec(nil, 0)
	return res
}

func Test_Bounded_MergeSortedSlices(t *testing.T) {
	seqs := boundedSortedSeqs(3, 3)
	rev := func(s []int) []int {
		r := make([]int, len(s))
		for i, v := range s {
			r[len(s)-1-i] = v
		}
		return r
	}
	checked := 0
	for _, desc := range []bool{false, true} {
		less := func(a, b int) bool { return a < b }
		if desc {
			less = func(a, b int) bool { return a > b }
		}
		for _, a := range seqs {
			for _, b := range seqs {
				for _, c := range seqs {
					in := [][]int{a, b, c}
					if desc {
						in = [][]int{rev(a), rev(b), rev(c)}
					}
					got := MergeSortedSlices(less, in[0], in[1], in[2])
					want := append(append(append([]int{}, in[0]...), in[1]...), in[2]...)
					sort.SliceStable(want, func(i, j int) bool { return less(want[i], want[j]) })
					if len(got) != len(want) {
						t.Fatalf("MergeSortedSlices(%v): got %v, want %v", in, got, want)
					}
					for i := range want {
						if got[i] != want[i] {
							t.Fatalf("MergeSortedSlices(desc=%v, %v): got %v, want %v", desc, in, got, want)
						}
					}
					checked++
				}
			}
		}
	}
	t.Logf("checked %d inputs", checked)
}
