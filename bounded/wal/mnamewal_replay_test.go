package wal

// BOUNDED stand-in (not a proof), C10: the metric-name WAL replays exactly the
// names whose append had completed, in order.  Every sequence of at most 3
// appended blocks, each block one of 4 non-empty name lists (1 to 4 names of different
// lengths, so that later blocks are shorter, equal or longer than earlier ones),
// is written with the real writer and read back with the real iterator; the
// names must come back exactly as appended.  The names are checked only AFTER
// the whole file was read (as recovery keeps them), so a name that aliases a
// buffer reused by a later block is noticed.

import (
	"fmt"
	"path/filepath"
	"testing"
)

func Test_Bounded_MNameWalReplay(t *testing.T) {
	// (an empty list is never appended: the periodic flusher appends only when names are pending)
	lists := [][]string{
		{"a"},
		{"disk.io.read", "disk.io.write"},
		{"cpu.usage.user", "cpu.usage.system", "mem.free.bytes", "net.rx.packets"},
		{"x.y", "a.rather.long.metric.name.with.many.segments", "z"},
	}
	dir := t.TempDir()
	inputs := 0
	var rec func(seq []int)
	check := func(seq []int) {
		inputs++
		path := filepath.Join(dir, fmt.Sprintf("mname_%d.wal", inputs))
		w, err := NewWAL(path, NewMetricNameEncoder())
		if err != nil {
			t.Fatalf("NewWAL: %v", err)
		}
		var want []string
		for _, k := range seq {
			if err := w.Append(lists[k]); err != nil {
				t.Fatalf("Append: %v", err)
			}
			want = append(want, lists[k]...)
		}
		if err := w.Close(); err != nil {
			t.Fatalf("Close: %v", err)
		}
		it, err := NewMNameWalReader(path)
		if err != nil {
			t.Fatalf("NewMNameWalReader: %v", err)
		}
		// the value is taken at once, as recovery does (Next hands out a pointer into
		// a slot it reuses); the comparison happens after the whole file was read
		var got []string
		for k := 0; k < 100; k++ {
			name, err := it.Next()
			if err != nil || name == nil {
				break
			}
			got = append(got, *name)
		}
		_ = it.Close()
		if len(got) != len(want) {
			t.Fatalf("BOUNDED-FAIL blocks %v: %d names replayed, %d appended", seq, len(got), len(want))
		}
		for i := range want {
			if got[i] != want[i] {
				t.Fatalf("BOUNDED-FAIL blocks %v: name %d replayed as %q, appended %q", seq, i, got[i], want[i])
			}
		}
	}
	rec = func(seq []int) {
		if len(seq) > 0 {
			check(seq)
		}
		if len(seq) == 3 {
			return
		}
		for k := range lists {
			rec(append(append([]int{}, seq...), k))
		}
	}
	rec(nil)
	fmt.Printf("BOUNDED-OK %d name WAL files\n", inputs)
}
