package tsidtracker

// Bounded stand-in for C09 (a selector returns exactly the series whose labels
// satisfy ALL matchers): AllMatchedTSIDs.BulkAdd / BulkAddTagsOnly fold the
// series matched by one label matcher into the running selection: the first
// matcher seeds it, every later one intersects with it.  The functions iterate
// Go maps (outside the verifier's subset: no contract over "all keys
// visited"), so this harness runs the REAL functions on every input within
// the stated bound and compares with set intersection / union.
// Bound: tsids 1..3; current selection any subset (8); the matcher's result
// any map of at most 2 tag values, each with any subset of the tsids, including
// the empty map (1 + 8 + 64 = 73 shapes); first in {true,false}.

import (
	"fmt"
	"testing"

	"github.com/valyala/bytebufferpool"
)

func boundedSubsets() [][]uint64 {
	var res [][]uint64
	for m := 0; m < 8; m++ {
		var s []uint64
		for b := 0; b < 3; b++ {
			if m&(1<<b) != 0 {
				s = append(s, uint64(b+1))
			}
		}
		res = append(res, s)
	}
	return res
}

func toSet(s []uint64) map[uint64]struct{} {
	m := map[uint64]struct{}{}
	for _, v := range s {
		m[v] = struct{}{}
	}
	return m
}

func Test_Bounded_BulkAdd(t *testing.T) {
	subs := boundedSubsets()
	var raws []map[string]map[uint64]struct{}
	raws = append(raws, map[string]map[uint64]struct{}{})
	for _, a := range subs {
		raws = append(raws, map[string]map[uint64]struct{}{"v1": toSet(a)})
		for _, b := range subs {
			raws = append(raws, map[string]map[uint64]struct{}{"v1": toSet(a), "v2": toSet(b)})
		}
	}
	checked := 0
	for _, tagsOnly := range []bool{false, true} {
		for _, first := range []bool{true, false} {
			for _, cur := range subs {
				for _, raw := range raws {
					tr, _ := InitTSIDTracker(1)
					tr.first = first
					for _, id := range cur {
						tr.allTSIDs[id] = bytebufferpool.Get()
						tr.tsidInfoMap[id] = &AllMatchedTSIDsInfo{MetricName: "m", TagKeyTagValue: map[string]interface{}{}}
					}
					matched := map[uint64]struct{}{}
					for _, s := range raw {
						for id := range s {
							matched[id] = struct{}{}
						}
					}
					want := map[uint64]struct{}{}
					if first {
						for _, id := range cur {
							want[id] = struct{}{}
						}
						for id := range matched {
							want[id] = struct{}{}
						}
					} else {
						for _, id := range cur {
							if _, ok := matched[id]; ok {
								want[id] = struct{}{}
							}
						}
					}
					var err error
					got := map[uint64]struct{}{}
					if tagsOnly {
						err = tr.BulkAddTagsOnly(raw, "m", "k")
						for id := range tr.tsidInfoMap {
							got[id] = struct{}{}
						}
					} else {
						err = tr.BulkAdd(raw, "m", "k")
						for id := range tr.allTSIDs {
							got[id] = struct{}{}
						}
					}
					if err != nil {
						t.Fatalf("unexpected error %v", err)
					}
					if fmt.Sprint(len(got)) != fmt.Sprint(len(want)) {
						t.Fatalf("tagsOnly=%v first=%v selection=%v matcher=%v: got %v, want %v", tagsOnly, first, cur, raw, got, want)
					}
					for id := range want {
						if _, ok := got[id]; !ok {
							t.Fatalf("tagsOnly=%v first=%v selection=%v matcher=%v: got %v, want %v", tagsOnly, first, cur, raw, got, want)
						}
					}
					checked++
				}
			}
		}
	}
	t.Logf("checked %d inputs", checked)
}
