package structs

// Bounded stand-in for C02 (A AND B = intersection, A OR B = union, at the
// level of the per-segment search request): JoinRequest combines the blocks to
// search and, per block, the columns that passed the micro-index check.  The
// function iterates Go maps (outside the verifier's subset), so this harness
// runs the REAL function on every input within the stated bound.
// Bound: blocks {0,1}, column names {a,b}; each request = any set of blocks,
// each present block with any subset of the columns (1+2*4+16 = 25 requests),
// both operators (1250 inputs).  Expected: OR -> union of blocks, per block the
// union of the column sets; AND -> intersection of blocks, per surviving block
// the union of the column sets.

import (
	"fmt"
	"testing"

	sutils "github.com/siglens/siglens/pkg/segment/utils"
)

type bReq struct {
	blocks map[uint16]map[string]bool
}

func boundedReqs() []bReq {
	colSets := []map[string]bool{{}, {"a": true}, {"b": true}, {"a": true, "b": true}}
	var res []bReq
	res = append(res, bReq{blocks: map[uint16]map[string]bool{}})
	for b := uint16(0); b < 2; b++ {
		for _, cs := range colSets {
			res = append(res, bReq{blocks: map[uint16]map[string]bool{b: cs}})
		}
	}
	for _, c0 := range colSets {
		for _, c1 := range colSets {
			res = append(res, bReq{blocks: map[uint16]map[string]bool{0: c0, 1: c1}})
		}
	}
	return res
}

func (r bReq) build() *SegmentSearchRequest {
	ssr := &SegmentSearchRequest{
		AllBlocksToSearch:  map[uint16]struct{}{},
		CmiPassedCnames:    map[uint16]map[string]bool{},
		AllPossibleColumns: map[string]bool{},
	}
	for b, cs := range r.blocks {
		ssr.AllBlocksToSearch[b] = struct{}{}
		ssr.CmiPassedCnames[b] = map[string]bool{}
		for c := range cs {
			ssr.CmiPassedCnames[b][c] = true
		}
	}
	return ssr
}

func Test_Bounded_JoinRequest(t *testing.T) {
	reqs := boundedReqs()
	checked := 0
	for _, op := range []sutils.LogicalOperator{sutils.And, sutils.Or} {
		for _, x := range reqs {
			for _, y := range reqs {
				ssr, toJoin := x.build(), y.build()
				ssr.JoinRequest(toJoin, op)
				want := map[uint16]map[string]bool{}
				for b := uint16(0); b < 2; b++ {
					_, inX := x.blocks[b]
					_, inY := y.blocks[b]
					keep := (op == sutils.And && inX && inY) || (op == sutils.Or && (inX || inY))
					if !keep {
						continue
					}
					want[b] = map[string]bool{}
					for c := range x.blocks[b] {
						want[b][c] = true
					}
					for c := range y.blocks[b] {
						want[b][c] = true
					}
				}
				got := map[uint16]map[string]bool{}
				for b := range ssr.AllBlocksToSearch {
					got[b] = map[string]bool{}
					for c, v := range ssr.CmiPassedCnames[b] {
						if v {
							got[b][c] = true
						}
					}
				}
				if fmt.Sprint(got) != fmt.Sprint(want) {
					t.Fatalf("op=%v ssr=%v toJoin=%v: got %v, want %v", op, x.blocks, y.blocks, got, want)
				}
				checked++
			}
		}
	}
	t.Logf("checked %d inputs", checked)
}
