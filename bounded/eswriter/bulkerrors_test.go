package writer

// BOUNDED stand-in (not a proof) for the response bookkeeping of HandleBulkBody:
// every sequence of at most 3 bulk actions over 8 kinds of item (a good
// document, an unsupported action, an oversize document, a malformed document, an
// unsafe index name, and as last action: a truncated document, a missing
// document line, an unsupported action without a newline) is sent through the real
// handler, and once more with a blank last line when the body ends in a newline; the response must carry one item per action, and `errors` must be
// true iff some item failed, and every item must carry the status of its own
// action (413 for an oversized document only).  Independent of how the handler keeps its flags, so
// it also decides a restructured body whose loop contract went stale.

import (
	"fmt"
	"os"
	"strings"
	"testing"

	"github.com/siglens/siglens/pkg/config"
	server_utils "github.com/siglens/siglens/pkg/server/utils"
	vtable "github.com/siglens/siglens/pkg/virtualtable"
)

type bndBulkKind struct {
	name     string
	lines    string
	fails    bool
	lastOnly bool // only meaningful as the last action of a body
	status   int  // status the item must carry (0: derived from fails, 400 / 201)
}

func Test_Bounded_BulkErrorsFlag(t *testing.T) {
	config.InitializeTestingConfig(t.TempDir())
	_ = vtable.InitVTable(server_utils.GetMyIds)
	defer os.RemoveAll(config.GetDataPath())

	idx := "bnd-c15-errors"
	action := `{"index":{"_index":"` + idx + `"}}` + "\n"
	kinds := []bndBulkKind{
		{"good", action + `{"a":"one"}` + "\n", false, false, 0},
		{"unsupported-action", `{"delete":{"_index":"` + idx + `"}}` + "\n", true, false, 0},
		{"oversize-document", action + `{"a":"` + strings.Repeat("x", 64000) + `"}` + "\n", true, false, 413},
		{"malformed-document", action + `{"a":"broken", "b":}` + "\n", true, false, 0},
		{"unsafe-index-name", `{"index":{"_index":"../bnd-c15"}}` + "\n" + `{"a":"one"}` + "\n", true, false, 0},
		{"truncated-last-document", action + `{"a": tru`, true, true, 0},
		{"missing-last-document-line", action, true, true, 0},
		{"unsupported-action-without-newline", `{"delete":{"_index":"` + idx + `"}}`, true, true, 0},
	}

	itemStatus := func(item interface{}) int {
		m, ok := item.(map[string]interface{})
		if !ok {
			t.Fatalf("unexpected item type %T", item)
		}
		if st, ok := m["status"]; ok {
			return st.(int)
		}
		for _, v := range m {
			if inner, ok := v.(map[string]interface{}); ok {
				if st, ok := inner["status"]; ok {
					return st.(int)
				}
			}
		}
		t.Fatalf("unexpected item shape %v", m)
		return 0
	}
	itemFailed := func(item interface{}) bool { return itemStatus(item) != 201 }

	inputs := 0
	var rec func(seq []int)
	var checkBody func(seq []int, trailingBlankLine bool)
	check := func(seq []int) {
		checkBody(seq, false)
		// a blank last line is the end of the body, not one more action
		if strings.HasSuffix(kinds[seq[len(seq)-1]].lines, "\n") {
			checkBody(seq, true)
		}
	}
	checkBody = func(seq []int, trailingBlankLine bool) {
		var body strings.Builder
		var names []string
		wantFailed := false
		for _, k := range seq {
			body.WriteString(kinds[k].lines)
			names = append(names, kinds[k].name)
			wantFailed = wantFailed || kinds[k].fails
		}
		if trailingBlankLine {
			body.WriteString("\n")
			names = append(names, "(blank last line)")
		}
		inputs++
		_, resp, _ := HandleBulkBody([]byte(body.String()), nil, 0, 0, false)
		items, _ := resp["items"].([]interface{})
		if len(items) != len(seq) {
			t.Fatalf("BOUNDED-FAIL actions %v: %d items in the response, want one per action (%d)", names, len(items), len(seq))
		}
		anyFailed := false
		for i, it := range items {
			f := itemFailed(it)
			if f != kinds[seq[i]].fails {
				t.Fatalf("BOUNDED-FAIL actions %v: item %d (%s) failed=%v, want %v", names, i, kinds[seq[i]].name, f, kinds[seq[i]].fails)
			}
			anyFailed = anyFailed || f
			// an item carries the status of ITS OWN action: 413 for an oversized
			// document only, 400 for every other failure, 201 when created
			want := kinds[seq[i]].status
			if want == 0 {
				want = 201
				if kinds[seq[i]].fails {
					want = 400
				}
			}
			if got := itemStatus(it); got != want {
				t.Fatalf("BOUNDED-FAIL actions %v: item %d (%s) has status %d, want %d", names, i, kinds[seq[i]].name, got, want)
			}
		}
		errorsFlag, ok := resp["errors"].(bool)
		if !ok {
			t.Fatalf("BOUNDED-FAIL actions %v: response has no boolean errors field: %v", names, resp["errors"])
		}
		if errorsFlag != anyFailed {
			t.Fatalf("BOUNDED-FAIL actions %v: errors=%v but failed items=%v (errors must be true iff some item failed)", names, errorsFlag, anyFailed)
		}
	}
	rec = func(seq []int) {
		if len(seq) > 0 {
			check(seq)
		}
		if len(seq) == 3 || (len(seq) > 0 && kinds[seq[len(seq)-1]].lastOnly) {
			return
		}
		for k := range kinds {
			rec(append(append([]int{}, seq...), k))
		}
	}
	rec(nil)
	fmt.Printf("BOUNDED-OK %d bulk bodies\n", inputs)
}
