package metadata

// Bounded complement for C13 (deleting an index removes all of its data and
// nothing else), in-memory metadata: runs the REAL deleteTable on every input
// within the stated bound and inspects all three structures afterwards.  The
// contract of deleteTable is proved for every size (/verif/bin/govc); this
// harness speaks only about the function's interface, so it still decides a
// version of the function whose loops were restructured (where the loop
// invariants of the contract no longer apply).
// Bound: n = 0..7 rotated segments of organisation 7 under index "app",
// interleaved in time with m = 0..2 segments of organisation 7 under index
// "other"; several segments may share LatestEpochMS (the sort key of the
// per-index slice).  Expected after deleteTable("app", 7): no segment of
// ("app", 7) in allSegmentMicroIndex, segmentMetadataReverseIndex or
// tableSortedMetadata; every segment of "other" still in all three, in order.
// NOT covered here (open finding, see known_findings.json): another
// organisation's index of the same name.

import (
	"fmt"
	"testing"

	"github.com/siglens/siglens/pkg/segment/structs"
)

func Test_Bounded_DeleteTable(t *testing.T) {
	checked := 0
	for n := 0; n <= 7; n++ {
		for m := 0; m <= 2; m++ {
			for tie := 0; tie <= 1; tie++ {
				ResetGlobalMetadataForTest()
				var smis []*SegmentMicroIndex
				appKeys := map[string]bool{}
				otherKeys := map[string]bool{}
				for i := 0; i < n; i++ {
					latest := uint64(200 + i)
					if tie == 1 {
						latest = uint64(200 + i/2)
					}
					key := fmt.Sprintf("data/host/final/app/0-7-1/%d/%d", i, i)
					appKeys[key] = true
					smis = append(smis, InitSegmentMicroIndex(&structs.SegMeta{SegmentKey: key, EarliestEpochMS: 100, LatestEpochMS: latest,
						VirtualTableName: "app", OrgId: 7, RecordCount: 1}, false))
				}
				for j := 0; j < m; j++ {
					key := fmt.Sprintf("data/host/final/other/0-7-2/%d/%d", j, j)
					otherKeys[key] = true
					smis = append(smis, InitSegmentMicroIndex(&structs.SegMeta{SegmentKey: key, EarliestEpochMS: 100, LatestEpochMS: uint64(201 + j),
						VirtualTableName: "other", OrgId: 7, RecordCount: 1}, false))
				}
				BulkAddSegmentMicroIndex(smis)

				globalMetadata.deleteTable("app", 7)

				where := fmt.Sprintf("n=%d m=%d tie=%d", n, m, tie)
				seenOther := map[string]bool{}
				for _, smi := range globalMetadata.allSegmentMicroIndex {
					if appKeys[smi.SegmentKey] {
						t.Errorf("%s: segment %s of the deleted index is still in allSegmentMicroIndex", where, smi.SegmentKey)
					}
					if otherKeys[smi.SegmentKey] {
						seenOther[smi.SegmentKey] = true
					}
				}
				if len(seenOther) != m {
					t.Errorf("%s: index other has %d of its %d segments in allSegmentMicroIndex", where, len(seenOther), m)
				}
				for k := range appKeys {
					if _, ok := globalMetadata.segmentMetadataReverseIndex[k]; ok {
						t.Errorf("%s: segment %s of the deleted index is still in the reverse index", where, k)
					}
				}
				for k := range otherKeys {
					if _, ok := globalMetadata.segmentMetadataReverseIndex[k]; !ok {
						t.Errorf("%s: segment %s of index other vanished from the reverse index", where, k)
					}
				}
				for _, smi := range globalMetadata.tableSortedMetadata["app"] {
					if smi.OrgId == 7 {
						t.Errorf("%s: segment %s of the deleted index is still listed under its table", where, smi.SegmentKey)
					}
				}
				if got := len(globalMetadata.tableSortedMetadata["other"]); got != m {
					t.Errorf("%s: index other lists %d of its %d segments", where, got, m)
				}
				checked++
			}
		}
	}
	if checked != 8*3*2 {
		t.Fatalf("bounded harness ran %d of %d inputs", checked, 8*3*2)
	}
}
