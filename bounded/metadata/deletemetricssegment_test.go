package metadata

// BOUNDED stand-in (not a proof), C14: removing a rotated metrics segment from
// the in-memory metadata removes it from BOTH views — the map by directory and
// the time-sorted slice that metrics searches iterate — and leaves every other
// segment in both.  For every number n of registered segments from 1 to 5,
// every non-empty subset of them deleted in every order of increasing and
// decreasing position (the newest, i.e. the head of the sorted slice, included):
// after each deletion the sorted slice holds exactly the survivors, in order.
// The removal splices a slice in place (overlapping append), which the
// verifier's append model does not follow.

import (
	"fmt"
	"testing"

	"github.com/siglens/siglens/pkg/segment/structs"
)

func Test_Bounded_DeleteMetricsSegmentKey(t *testing.T) {
	inputs := 0
	for n := 1; n <= 5; n++ {
		for mask := 1; mask < 1<<n; mask++ {
			for _, descending := range []bool{false, true} {
				ResetMetricsMetadata_TestOnly()
				var all []*MetricsSegmentMetadata
				for i := 0; i < n; i++ {
					all = append(all, InitMetricsMicroIndex(&structs.MetricsMeta{
						MSegmentDir:      fmt.Sprintf("/data/ts/0/%d/%d", i, i),
						EarliestEpochSec: uint32(1000 * (i + 1)),
						LatestEpochSec:   uint32(1000*(i+1) + 999),
					}))
				}
				BulkAddMetricsSegment(all)
				alive := map[string]bool{}
				for _, m := range all {
					alive[m.MSegmentDir] = true
				}
				order := []int{}
				for i := 0; i < n; i++ {
					if mask&(1<<i) != 0 {
						order = append(order, i)
					}
				}
				if descending {
					for l, r := 0, len(order)-1; l < r; l, r = l+1, r-1 {
						order[l], order[r] = order[r], order[l]
					}
				}
				for _, i := range order {
					dir := all[i].MSegmentDir
					inputs++
					if err := DeleteMetricsSegmentKey(dir); err != nil {
						t.Fatalf("BOUNDED-FAIL n=%d mask=%b: deleting %s: %v", n, mask, dir, err)
					}
					delete(alive, dir)
					seen := map[string]bool{}
					for _, m := range globalMetricsMetadata.sortedMetricsSegmentMeta {
						if !alive[m.MSegmentDir] {
							t.Fatalf("BOUNDED-FAIL n=%d mask=%b: after deleting %s the sorted slice that searches iterate still holds %s", n, mask, dir, m.MSegmentDir)
						}
						if seen[m.MSegmentDir] {
							t.Fatalf("BOUNDED-FAIL n=%d mask=%b: %s twice in the sorted slice", n, mask, m.MSegmentDir)
						}
						seen[m.MSegmentDir] = true
					}
					if len(seen) != len(alive) || len(globalMetricsMetadata.metricsSegmentMetaMap) != len(alive) {
						t.Fatalf("BOUNDED-FAIL n=%d mask=%b: after deleting %s: %d in the sorted slice, %d in the map, %d survivors", n, mask, dir, len(seen), len(globalMetricsMetadata.metricsSegmentMetaMap), len(alive))
					}
				}
			}
		}
	}
	fmt.Printf("BOUNDED-OK %d deletions\n", inputs)
}
