package lookups

// BOUNDED stand-in (not a proof), C19: the lookup-file name validator accepts a
// name exactly when it is a plain file name: not empty, not "." or "..", and
// without '/' or '\' ANYWHERE in it.  Every string of up to 4 bytes over the
// alphabet { / \ . a - _ }, alone and at the start / middle / end of a longer
// plain name.  String processing, outside the verifier's string model; this is
// the meaning the deductive C19 contracts ASSUME as safeName.

import (
	"fmt"
	"testing"
)

func Test_Bounded_IsSafeLookupName(t *testing.T) {
	alphabet := []byte{'/', '\\', '.', 'a', '-', '_'}
	oracle := func(s string) bool {
		if s == "" || s == "." || s == ".." {
			return false
		}
		for i := 0; i < len(s); i++ {
			if s[i] == '/' || s[i] == '\\' {
				return false
			}
		}
		return true
	}
	inputs := 0
	check := func(s string) {
		inputs++
		if got, want := IsSafeLookupName(s), oracle(s); got != want {
			t.Fatalf("BOUNDED-FAIL IsSafeLookupName(%q) = %v, want %v", s, got, want)
		}
	}
	var rec func(prefix []byte, n int)
	rec = func(prefix []byte, n int) {
		s := string(prefix)
		check(s)
		if s != "" {
			check(s + "hosts.csv")
			check("hosts" + s + ".csv")
			check("hosts.csv" + s)
		}
		if n == 0 {
			return
		}
		for _, c := range alphabet {
			rec(append(append([]byte{}, prefix...), c), n-1)
		}
	}
	rec(nil, 4)
	fmt.Printf("BOUNDED-OK %d names\n", inputs)
}
