package metrics

// BOUNDED stand-in (not a proof), C19: the tag-key validator (a tag key becomes
// the file name of its tags tree) accepts a key exactly when it is not empty,
// not "." or "..", at most 255 bytes and without '/' or NUL ANYWHERE in it.
// Every string of up to 4 bytes over { / NUL . a - _ }, alone and at the start /
// middle / end of a longer plain key, and keys around the length limit.

import (
	"fmt"
	"strings"
	"testing"
)

func Test_Bounded_IsValidTagKey(t *testing.T) {
	alphabet := []byte{'/', 0, '.', 'a', '-', '_'}
	oracle := func(s string) bool {
		if s == "" || s == "." || s == ".." || len(s) > 255 {
			return false
		}
		for i := 0; i < len(s); i++ {
			if s[i] == '/' || s[i] == 0 {
				return false
			}
		}
		return true
	}
	inputs := 0
	check := func(s string) {
		inputs++
		if got, want := IsValidTagKey(s), oracle(s); got != want {
			t.Fatalf("BOUNDED-FAIL IsValidTagKey(%q) = %v, want %v", s, got, want)
		}
	}
	var rec func(prefix []byte, n int)
	rec = func(prefix []byte, n int) {
		s := string(prefix)
		check(s)
		if s != "" {
			check(s + "host")
			check("ho" + s + "st")
			check("host" + s)
		}
		if n == 0 {
			return
		}
		for _, c := range alphabet {
			rec(append(append([]byte{}, prefix...), c), n-1)
		}
	}
	rec(nil, 4)
	for _, l := range []int{254, 255, 256} {
		check(strings.Repeat("a", l))
		check("/" + strings.Repeat("a", l-1))
	}
	fmt.Printf("BOUNDED-OK %d keys\n", inputs)
}
