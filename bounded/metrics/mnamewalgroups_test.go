package metrics

// Bounded stand-in for C10 (recovery yields, per segment, what was appended to
// that segment's log and nothing else): extractMNameWALFileInfo groups the
// metric-name WAL files found at start-up by (shard, segment); recovery replays
// each group into ONE segment's .mnm file and deletes the group's files.  The
// grouping key is built by string concatenation, which is outside the
// verifier's string model, so this harness runs the REAL function on every
// input within the stated bound.
// Bound: one WAL file for every pair (shard, segment) with shard and segment in
// {0,1,2,3,11,12,21,23,111,112,211} (121 files: all pairs whose decimal
// spellings can be confused by dropping or moving a separator).  Expected: 121
// groups, each holding exactly its own file and carrying its own ids.

import (
	"fmt"
	"os"
	"path/filepath"
	"testing"
)

func Test_Bounded_MNameWalGroups(t *testing.T) {
	ids := []uint64{0, 1, 2, 3, 11, 12, 21, 23, 111, 112, 211}
	dir := t.TempDir()
	want := map[string][2]uint64{}
	for _, sh := range ids {
		for _, seg := range ids {
			name := fmt.Sprintf("shardID_%d_segID_%d_.wal", sh, seg)
			if err := os.WriteFile(filepath.Join(dir, name), []byte("x"), 0o644); err != nil {
				t.Fatal(err)
			}
			want[name] = [2]uint64{sh, seg}
		}
	}
	groups, err := extractMNameWALFileInfo(dir)
	if err != nil {
		t.Fatalf("extractMNameWALFileInfo: %v", err)
	}
	if len(groups) != len(want) {
		t.Errorf("%d WAL files of %d different (shard, segment) pairs were put into %d groups", len(want), len(want), len(groups))
	}
	seen := map[string]bool{}
	for key, g := range groups {
		for _, f := range g.walFiles {
			w, ok := want[f]
			if !ok {
				t.Errorf("group %q lists a file that was not there: %s", key, f)
				continue
			}
			if w[0] != g.mId || w[1] != g.segID {
				t.Errorf("file %s (shard %d, segment %d) is in the group of shard %d, segment %d", f, w[0], w[1], g.mId, g.segID)
			}
			if seen[f] {
				t.Errorf("file %s is listed twice", f)
			}
			seen[f] = true
		}
	}
	if len(seen) != len(want) {
		t.Errorf("%d of %d files are in some group", len(seen), len(want))
	}
}
