#!/usr/bin/env python3
"""Generates /verif/MANIFEST.json from the table below (kept in one place so
that the claimed set, the level texts and the not_applicable list stay in
sync with DESIGN.md)."""
import json, subprocess

ENV = "GOFLAGS=-mod=mod GOPROXY=off GOSUMDB=off GOTOOLCHAIN=local"
TECH = "contract-based deductive verification: weakest-precondition VCs generated from go/ssa of the real functions under //@ contracts (build tag verif), discharged by z3 5.1 / cvc5 1.0 / z3 4.8 portfolio; counterexamples replayed on the real code"

CLAIMED = {
 "C01": ("4 C01", "Encoding layer of the ingest->query round trip: every little-endian value codec pair in pkg/utils is proved inverse for all inputs (functional contracts + round-trip lemmas), the record-level number decoder returns the stored value, the block timestamp encoder stores every record offset without truncation and the reader decodes it back (functional), the reader advances by exactly the encoded record length, a column whose values were rewritten at flush (mixed types) is marked variable-length, and a column block is written in dictionary form only when the dictionary stands for the buffered values (precondition of writeWip checked in the per-column flush closure). Flattening, file I/O, zstd and column assembly are not decided.",
         "callers establish buffer-length preconditions; NaN payloads unconstrained; the block-summary invariant at the call of encodeTimestamps and the frame of the bloom writer are explicit assumptions; goroutine-per-column flush verified as if run alone; JSON flattening, zstd, files, reader column assembly not covered"),
 "C02": ("4 C02", "Numeric and time-range comparison kernels of the search path: time-range membership/overlap equal the mathematical predicate, the record-level numeric comparison equals comparison by value (postconditions taken from the property statement; deviations are listed as known findings), case-insensitive byte equality is ASCII case folding for all lengths (loop invariant). Text/regex matching and the query grammar are not decided.",
         "literal well-formedness (wfLit) is a precondition established by CreateDtypeEnclosure (unverified: string parsing); records are the encodings the writer emits (INT64/FLOAT64/BOOL/STRING/BACKFILL); regex, wildcard and term matching not covered"),
 "C03": ("4 C03", "Pruning soundness of the pure-arithmetic accelerators: the numeric range filters equal the exact 'some value of [min,max] can satisfy v op q' predicate for all operands, the lemma 'a stored value that matches is never pruned' is proved for int/uint/float against the record-level comparison, every value added to a block's range index stays inside [min,max] across the uint->int->float promotions (map-cell contracts), time-range overlap equals the interval predicate, and dropping group-by columns from the aggregation tree compacts its three per-column arrays (dictionary, reverse dictionary, next-code counter) with the same index set so that they stay aligned. Bloom filters, dictionary/raw equivalence, PQS, sort index, the tree build/merge itself and parallel merge are not decided.",
         "range-index well-formedness is a precondition (checked as postcondition of the add* functions); uint values above MaxInt64 excluded; int->float promotion obligations only in the thorough tier (slow FP queries); checkRangeIndexHelper's literal parsing not covered; utils.RemoveElements (generic) and the frame of dropColumn are ASSUMED"),
 "C04": ("4 C04", "Time-bucket assignment: every timestamp of the range maps to an aligned bucket that contains it (mathematical-integer VCs with explicit uint64 wrap-around, all starts/ends/steps); the bin command with an explicit aligntime puts every event, also one earlier than aligntime, into the aligned span that contains it; the segment-statistics merges give avg = sum / numeric count and count/sum of the merged parts. Group-by, sketches and the stats pipeline are not decided.",
         "step > 0 is a call-site precondition (established by the SPL grammar, unverified); getTimeBucketWithAlign is proved with float64 treated as exact real arithmetic (stated assumption: all operands are integers below 2^53; the IEEE bit-exact query with fp.div times out on all solvers); group-by/values/list/HLL/t-digest, .sst fast paths not covered"),
 "C05": ("4 C05", "Order and pagination kernels: the numeric and string sort comparators equal the order of the values (strict weak order lemmas: antisymmetry, transitivity incl. transitivity of equivalence), scroll skips exactly `from` records and head keeps exactly the first `limit` records of the stream whatever the batching (contracts over the interval view of an IQR); the per-key comparator of multi-key sorts returns EQUAL for two missing values, puts missing values last, orders different ranks by rank and equal ranks by value (reversed when descending) and is antisymmetric (lemma), over uninterpreted rank/value functions; the sort-index merge exits early only for single-key sorts. The block scheduler and merge are not decided.",
         "IQR operations (NumberOfRecords/Discard/DiscardAfter/Append) are ASSUMED contracts over an abstract interval view; NaN excluded; getRank and the number/string accessors of a value are ASSUMED pure functions of the value (rankOf/floatOf/strOf)"),
 "C06": ("4 C06", "Chunk invariance of head, tail and scroll: each processor's cross-batch state is proved to be a function of the number of records seen only (tail: finalIqr is always the last min(seen,TailRows) records; head: union of outputs is the first MaxRows; scroll: skipped prefix), over the interval view of an IQR; head with an eval expression counts its limit over the whole stream (numRecordsSent <= MaxRows after every batch, grows by exactly the rows kept, reaching the limit ends the stream); fillnull's set of seen columns is the union over all batches. The other commands of the property (where/eval/dedup/stats/...) are not decided.",
         "IQR operations are ASSUMED contracts over an abstract interval view; stream positions below 2^60; batches arrive in stream order (adjacency precondition); the boolean-expression evaluator is an ASSUMED pure frame"),
 "C08": ("4 C08", "Gorilla codec of the metrics store: the real value encoder and decoder are proved inverse for every float64 bit pattern and every window state (token-stream contracts, clz/ctz loops with inductive invariants, a round-trip lemma that re-establishes the encoder/decoder coupling invariant = the induction step over the samples of a series), likewise the delta-of-delta timestamp encoder/decoder for all int32 deltas; reading a field with another width than it was written with is a named obligation. The bit I/O layer is an assumed token-stream view; series identity (TSID hashing, tags), files and rotation are not decided.",
         "bitWriter/bitReader ASSUMED to implement the ghost token stream (a field written with writeBits(v,n) is read back by readBits(n) / n readBit calls); modifies-frames of the verified codec functions are not themselves checked; NaN payloads unconstrained; first-sample path (14-bit delta) and finish marker not covered; dod == 2^32-1 excluded (collides with the end marker)"),
 "C09": ("4 C09", "Aggregation kernels of the metrics query path only: for every number of member series the min (bottomk) / max (topk) aggregate of a group is proved to be an element of the member values that bounds all of them (loop invariants with an existential witness), group -> 1, the metrics time-range predicates equal the interval predicates, and a regex label matcher is applied fully anchored (^(pattern)$, grouped) and accepts a value iff the match agrees with the operator (=~ / !~). The meaning of regular expressions, grouping keys, sum/avg folds, vector arithmetic and layout independence are not decided.",
         "NaN members excluded; sum/avg (left folds) and quantile not specified; regexp.Match is external; 'fully anchored' is an uninterpreted predicate derived from the literal Sprintf format; equality matchers and selector parsing not covered"),
 "C10": ("4 C10", "Thin: in all three WAL iterators a block is decoded only behind the CRC gate (the decoder call is dominated by crc32(block) == stored checksum, CRC as an uninterpreted function of the bytes read), the framing arithmetic cannot wrap (blockSize >= 4 before the subtraction), the writer frames a block as size | crc32(payload) | payload, a decoded datapoint block leaves exactly its own N datapoints in the iterator (no leftover of an earlier larger block), and WAL rotation closes the old file before opening the next index. The crash-prefix and truncation-length parts of the property are about file-system histories and are not decided.",
         "binary.Read / io.ReadFull / zstd / json are external (arbitrary results); recovery loop's treatment of errors as end-of-log not covered"),
 "C13": ("4 C13", "Segment-selection guard: every rotated or open segment handed to a search, and every column name collected for it, is proved (path-condition contracts at the insertion sites, loop invariant for the index-name match) to belong to the requesting organisation, to a requested index and to overlap the query time range. Removing an alias removes it from the in-memory alias map as well as from the file, and the stream id under which ingest finds a segment store carries the org id as its own dash-separated field (ids of different orgs differ; string-level rule on the Sprintf format literal). Index-name expansion (wildcards), metrics queries and deletion are not decided.",
         "map iteration is abstracted (arbitrary order/elements); ExpandAndReturnIndexNames, alias maps and deletion not covered"),
 "C14": ("4 C14", "Victim-selection guard of the time-based retention pass: a log or metrics segment is put on the deletion list only if its newest event is at or before the horizon (no arithmetic overflow in the second->millisecond conversion) and only entries of the requesting organisation are considered. The shared tags-tree directory of a metrics base dir is removed only when no surviving segment uses it; segmeta.json is rewritten from the preserved entries only (an entry is preserved iff it is not a victim), through a truncated temp file renamed over the file itself. The converse direction (every expired segment is deleted), crash interruption, files and blob store are not decided.",
         "segment metadata readers and the sort are external (arbitrary results); volume- and inode-based passes not covered"),
 "C15": ("4 C15", "Acknowledgement bookkeeping of the bulk handler: the response's errors flag is proved equal to 'some item was stored with a failure status' (ghost flag + loop invariant over the request loop, all bodies), a created status is stored only for a successful item, every action gets exactly one response item (ghost counter), line splitting partitions the body around the first newline, and whatever object the pool hands out, a document is parsed into an event with no columns carrying only this request's body, timestamp and index (a failed item leaves no trace in the next one). Whether a created document becomes searchable is not decided.",
         "JSON parsing, PLE creation and the store are external calls (arbitrary results, ghost state preserved); failures of ProcessIndexRequestPle after statuses were assigned (acknowledged TODO in the code) not covered"),
 "C16": ("4 C16", "Event-time normalisation: a numeric timestamp in seconds / milliseconds / nanoseconds is stored as its millisecond (logs) or second (Prometheus remote write) instant for all 2^64 values, and the JSON number path of ExtractTimeStamp agrees with the string path (ghost-linked contracts), an integer JSON number keeps its exact value (not routed through float64), and the Prometheus path tests the nanosecond band before the millisecond band. Attribute/field preservation through the protocol decoders is not decided.",
         "the magnitude band [1e14,1e18) is treated as milliseconds by both paths (no microsecond case exists); jsonparser/strconv are external (results arbitrary); RFC3339 parsing not covered"),
 "C18": ("4 C18", "Decoders of the files that carry no checksum must not panic on arbitrary bytes: the block-summary readers (.bsu, .mbsu) and the timestamp-column decoder are proved free of index/slice/nil panics for every file content and length (unbounded loops with inductive invariants), the timestamp decoder is proved to return lowTs + the stored offset for every record, a chunk of a checksummed file is handed out only behind its CRC comparison, and a column block whose load failed never becomes the reader's loaded block (isBlockLoaded/currBlockNum change only on success and then name that block; loader frame verified down to the pools/zstd, which are assumed). zstd itself and whole-query behaviour are not decided.",
         "file I/O results are arbitrary (os.File.Read/ReadAt, FileInfo.Size assumed 0 <= n <= len); dictionary rank values of the column-name map assumed small (explicit site assumption); decoders that only see CRC-verified blocks are checked under their well-formedness precondition in C01, not here"),
 "C19": ("4 C19", "Confinement of client-supplied names as a sanitiser discipline for lookup files and dashboards: every os.* call of the upload/get/delete lookup handlers and of the dashboard read/write paths is proved to take a path built from a trusted directory and a name that passed the validator (uninterpreted safeName/confined predicates; appending a separator-free literal keeps a name safe, decided on the literal's text). A name that is transformed (e.g. percent-decoded) after validation is no longer a validated name. Index/alias/saved-query/scroll names and symlinks are not decided.",
         "the validator's and filepath.Join's string-level meaning is ASSUMED; only the handlers listed in the evidence are covered"),
 "C20": ("4 C20", "Alert state machine kernels: threshold conditions equal the configured comparison, Firing requires the current and the N-1 previous evaluations Pending/Firing (loop invariant over the history rows), the new state is Normal iff the condition did not hold and a notification is attempted exactly on Firing/Normal, the notification gate follows its decision table, no division by a zero interval. Keyed-store half, saved queries only: every mutation of a tenant's in-memory map (write, delete, delete-all) that reports success leaves the tenant's own file rewritten/removed (ghost 'synced' flag cleared at each mutation and set only at the file write). Dashboards, folders, aliases, contact points and restart behaviour are not decided.",
         "history store (sqlite/gorm) ASSUMED to return non-nil rows; time.Now-based cool-down observers assumed pure; JSON encoding and file names are opaque (usqFile(myid) uninterpreted); dashboards/aliases/contacts CRUD not covered"),
}

NOT_APPLICABLE = {
 "C07": "quantifier is crash points x file-system histories; per-function contracts have no notion of a prefix of completed system calls",
 "C11": "quantifier is schedules; the VC generator has no thread model and the mechanisms are lock/publication order across packages",
 "C12": "trace views are multiset/graph facts over string-keyed maps produced by generated SPL queries through the whole engine; outside the expressible subset",
 "C17": "termination, PEG-generated parsers and goroutine life-cycle under concurrency; no contract within reach carries the property",
}

PENDING = "contracts not built (see DESIGN.md sections 4 and 10)"

def main():
    props = [json.loads(l)["id"] for l in open("/verif/properties.jsonl")]
    commits = subprocess.run(["git", "-C", "/repo", "log", "--format=%h %s"], capture_output=True, text=True).stdout.splitlines()
    hook_commits = [c.split()[0] for c in commits if " verif: " in " " + c]
    checks = []
    for pid in props:
        if pid not in CLAIMED:
            continue
        ref, text, note = CLAIMED[pid]
        checks.append({
            "property_id": pid,
            "quick_cmd": f"/verif/bin/govc check -p {pid} -tier quick",
            "thorough_cmd": f"/verif/thorough.sh {pid}",
            "evidence_file": f"/verif/evidence/{pid}.json",
            "replay_cmd_template": "/verif/bin/govc replay {path}",
            "engine": "govc",
            "level_claimed": {"category": "proof", "text": text, "design_ref": "DESIGN.md section " + ref},
            "level_note": note + "; trusted: go/ssa construction, the SMT solvers, the govc translation, stdlib intrinsics (encoding/binary, math) modelled exactly, external calls listed in the evidence file under trusted_base",
            "technique": TECH,
        })
    na = []
    for pid in props:
        if pid in CLAIMED:
            continue
        na.append({"property_id": pid, "reason": NOT_APPLICABLE.get(pid, PENDING)})
    m = {
        "version": 1,
        "setup_cmd": f"cd /verif/engine && {ENV} go build -o /verif/bin/govc .",
        "hooks": {
            "guard": "verif",
            "enable": "go build -tags verif (contract files pkg/**/zz_verif_*.go are only compiled with the tag; comment-only contracts plus lemma functions)",
            "baseline_off_cmd": "cd /repo && go test -mod=mod -json -vet=off -count=1 -timeout 25m ./...",
            "source_commits": hook_commits,
            "add_only": True,
        },
        "engines": [{"name": "govc", "path": "/verif/engine", "serves_properties": sorted(CLAIMED), "kind_free_text": "Go SSA -> SMT verification-condition generator with contract files, solver portfolio and counterexample replay"}],
        "checks": checks,
        "not_applicable": na,
        "notes": "Known findings are listed in /verif/known_findings.json; contracts live in /repo/pkg/**/zz_verif_*.go with a byte-identical mirror under /verif/contracts used when a file is missing from the working tree.",
    }
    json.dump(m, open("/verif/MANIFEST.json", "w"), indent=1)
    print("claimed:", sorted(CLAIMED), "n/a:", [x["property_id"] for x in na])

main()
