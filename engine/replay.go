package main

import (
	"encoding/json"
	"fmt"
	"os"
	"path/filepath"
)

type ReplayFile struct {
	Property     string            `json:"property"`
	Obligation   string            `json:"obligation"`
	Result       string            `json:"result"`
	Backend      string            `json:"backend"`
	SolverOutput string            `json:"solver_output"`
	Clause       string            `json:"clause,omitempty"`
	Pos          string            `json:"pos,omitempty"`
	Model        map[string]string `json:"model,omitempty"`
	GoTest       string            `json:"go_test,omitempty"`
	GoTestPkg    string            `json:"go_test_pkg,omitempty"`
	GoTestName   string            `json:"go_test_name,omitempty"`
	ReplayOutput string            `json:"replay_output,omitempty"`
	Reproduced   bool              `json:"reproduced"`
	Note         string            `json:"note,omitempty"`
}

func writeReplay(o CheckOpts, w *World, r *OblReport) string {
	dir := filepath.Join(o.Verif, "replays", o.Prop)
	os.MkdirAll(dir, 0o755)
	path := filepath.Join(dir, fmt.Sprintf("%x.json", hashString(r.Name)))
	rf := ReplayFile{Property: o.Prop, Obligation: r.Name, Result: r.Result, Backend: r.Backend, SolverOutput: firstLines(r.res.Output, 40), Clause: r.Text, Pos: r.Pos}
	if r.Result == "sat" && !o.NoReplay {
		buildReplay(o, w, r, &rf)
	} else if r.Result != "sat" {
		rf.Note = "the solver produced no model (" + r.Result + "); the obligation was discharged on the unchanged tree and is not any more"
	}
	r.Reproduced = rf.Reproduced
	data, _ := json.MarshalIndent(rf, "", " ")
	os.WriteFile(path, data, 0o644)
	return path
}

func runReplayCmd(args []string) int {
	if len(args) < 1 {
		fmt.Fprintln(os.Stderr, "usage: govc replay <file>")
		return 2
	}
	data, err := os.ReadFile(args[0])
	if err != nil {
		fmt.Fprintln(os.Stderr, err)
		return 2
	}
	var rf ReplayFile
	if err := json.Unmarshal(data, &rf); err != nil {
		fmt.Fprintln(os.Stderr, err)
		return 2
	}
	if rf.GoTest == "" {
		fmt.Printf("replay file carries no executable test (obligation %s, result %s)\n%s\n", rf.Obligation, rf.Result, rf.SolverOutput)
		return 1
	}
	out, failed := runGoTest("/repo", rf.GoTestPkg, rf.GoTestName, rf.GoTest)
	fmt.Println(out)
	if failed {
		return 1
	}
	return 0
}
