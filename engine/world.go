package main

import (
	"fmt"
	"go/ast"
	"go/token"
	"go/types"
	"os"
	"path/filepath"
	"sort"
	"strings"

	"golang.org/x/tools/go/packages"
	"golang.org/x/tools/go/ssa"
	"golang.org/x/tools/go/ssa/ssautil"
)

const modulePath = "github.com/siglens/siglens"

type World struct {
	repo             string
	verif            string
	fset             *token.FileSet
	pkgs             map[string]*packages.Package
	prog             *ssa.Program
	files            []*ContractFile
	contracts        map[string]*Contract // pkgPath::key  or external full name
	specs            map[string]*SpecFn
	ghosts           map[string]string
	needTdiv         bool
	maxCands         int
	mirrorUsed       []string
	untagged         []string // non-assumed contracts without a props tag (never verified)
	duplicates       []string // functions with more than one contract of the same view
	overlay          map[string][]byte
	loadSecs         float64
	constGlobals     map[*ssa.Global]*constGlobal
	errGlobals       map[*ssa.Global]bool
	constGlobalsUsed map[string]bool
}

func (w *World) ghostType(name string) types.Type {
	if s, ok := w.ghosts[name]; ok {
		if ty, ok := convNames[s]; ok {
			return ty
		}
		if s == "ref" {
			// an object reference (pointer, map, ...): compared by identity only
			return types.Typ[types.UnsafePointer]
		}
	}
	return types.Typ[types.Int]
}

func (w *World) pkgByPath(path string, dflt *types.Package) *types.Package {
	if p, ok := w.pkgs[path]; ok && p.Types != nil {
		return p.Types
	}
	return dflt
}

func (w *World) importedPkg(p *types.Package, name string) *types.Package {
	// import aliases used in the package's files
	if lp := w.pkgs[p.Path()]; lp != nil {
		for _, f := range lp.Syntax {
			for _, im := range f.Imports {
				if im.Name != nil && im.Name.Name == name {
					path := strings.Trim(im.Path.Value, "\"")
					if ip := w.pkgs[path]; ip != nil && ip.Types != nil {
						return ip.Types
					}
				}
			}
		}
	}
	for _, imp := range p.Imports() {
		if imp.Name() == name {
			return imp
		}
	}
	// also allow any loaded package with that name (contract files have no imports)
	var found *types.Package
	for _, lp := range w.pkgs {
		if lp.Types != nil && lp.Types.Name() == name {
			if found != nil && found != lp.Types {
				// ambiguous: prefer siglens packages
				if strings.HasPrefix(lp.Types.Path(), modulePath) && !strings.HasPrefix(found.Path(), modulePath) {
					found = lp.Types
				}
				continue
			}
			found = lp.Types
		}
	}
	return found
}

func (w *World) resolveType(name string, cur *types.Package, declPkg string) types.Type {
	if ty, ok := convNames[name]; ok {
		return ty
	}
	if strings.HasPrefix(name, "[]") {
		if el := w.resolveType(name[2:], cur, declPkg); el != nil {
			return types.NewSlice(el)
		}
		return nil
	}
	if strings.HasPrefix(name, "*") {
		if el := w.resolveType(name[1:], cur, declPkg); el != nil {
			return types.NewPointer(el)
		}
		return nil
	}
	p := w.pkgByPath(declPkg, cur)
	if i := strings.Index(name, "."); i >= 0 {
		if p != nil {
			if ip := w.importedPkg(p, name[:i]); ip != nil {
				if tn, ok := ip.Scope().Lookup(name[i+1:]).(*types.TypeName); ok {
					return tn.Type()
				}
			}
		}
		return nil
	}
	if p != nil {
		if tn, ok := p.Scope().Lookup(name).(*types.TypeName); ok {
			return tn.Type()
		}
		for _, imp := range p.Imports() {
			if !strings.HasPrefix(imp.Path(), modulePath) {
				continue
			}
			if tn, ok := imp.Scope().Lookup(name).(*types.TypeName); ok && tn.Exported() {
				return tn.Type()
			}
		}
	}
	return nil
}

func (w *World) fileOf(fn *ssa.Function, pos token.Pos) *ast.File {
	if fn.Pkg == nil {
		return nil
	}
	p := w.pkgs[fn.Pkg.Pkg.Path()]
	if p == nil {
		return nil
	}
	for _, f := range p.Syntax {
		if f.Pos() <= pos && pos <= f.End() {
			return f
		}
	}
	return nil
}

func (w *World) contractName(fn *ssa.Function) string {
	if fn.Pkg == nil {
		return calleeName(fn)
	}
	return fn.Pkg.Pkg.Path() + "::" + fnKey(fn)
}

// contractForView: the contract a function is used under while a caller is
// verified under the view `view` ("" = primary).  A view is a second,
// independently verified contract of the same function, written as
// `func F @view`; it is used at call sites only by functions that are
// themselves being verified under the same view, and falls back to the
// primary contract of a callee that has no such view.
func (w *World) contractForView(fn *ssa.Function, view string) *Contract {
	if view != "" {
		if c, ok := w.contracts[w.contractName(fn)+" @"+view]; ok {
			return c
		}
	}
	return w.contractFor(fn)
}

func (w *World) contractFor(fn *ssa.Function) *Contract {
	if c, ok := w.contracts[w.contractName(fn)]; ok {
		return c
	}
	if c, ok := w.contracts[calleeName(fn)]; ok {
		return c
	}
	// instance of a generic function: the contract is written on the origin
	if o := fn.Origin(); o != nil && o != fn {
		return w.contractFor(o)
	}
	return nil
}

// LoadContracts parses every contract file (repo first, mirror as fallback)
// and the assumed external contracts.
func (w *World) LoadContracts() error {
	w.contracts = map[string]*Contract{}
	w.specs = map[string]*SpecFn{}
	w.ghosts = map[string]string{}
	w.overlay = map[string][]byte{}
	files, fromMirror, err := findContractFiles(w.repo, filepath.Join(w.verif, "contracts"))
	if err != nil {
		return err
	}
	var rels []string
	for rel := range files {
		rels = append(rels, rel)
	}
	sort.Strings(rels)
	for _, rel := range rels {
		path := files[rel]
		pkgPath := modulePath + "/pkg/" + filepath.ToSlash(filepath.Dir(rel))
		cf, err := ParseContractFile(path, pkgPath)
		if err != nil {
			return err
		}
		if fromMirror[rel] {
			w.mirrorUsed = append(w.mirrorUsed, rel)
			data, err := os.ReadFile(path)
			if err != nil {
				return err
			}
			w.overlay[filepath.Join(w.repo, "pkg", rel)] = data
		}
		w.addFile(cf)
	}
	// external assumed contracts
	ext := filepath.Join(w.verif, "spec", "stdlib.assumed")
	if _, err := os.Stat(ext); err == nil {
		cf, err := ParseContractFile(ext, "")
		if err != nil {
			return err
		}
		for _, c := range cf.Contracts {
			c.Assumed = true
		}
		w.addFile(cf)
	}
	return nil
}

func (w *World) addFile(cf *ContractFile) {
	w.files = append(w.files, cf)
	for _, c := range cf.Contracts {
		key := c.Key
		if strings.HasPrefix(c.Key, "iface ") && c.PkgPath != "" {
			// interface method: "iface T.M" -> types.Func.FullName()
			tm := strings.TrimSpace(strings.TrimPrefix(c.Key, "iface "))
			if i := strings.Index(tm, "."); i > 0 {
				key = "(" + c.PkgPath + "." + tm[:i] + ")." + tm[i+1:]
				c.Assumed = true
			}
		} else if c.PkgPath != "" {
			key = c.PkgPath + "::" + c.Key
			if !c.Assumed && !c.Lemma && len(c.Props) == 0 {
				// a contract that is neither marked `assumed` nor tagged with a
				// property would be relied on by callers and never checked
				w.untagged = append(w.untagged, key)
			}
		}
		if prev, dup := w.contracts[key]; dup && prev != c {
			// two contracts for one function: the later one would silently replace the earlier
			w.duplicates = append(w.duplicates, key)
		}
		w.contracts[key] = c
	}
	for _, s := range cf.Specs {
		w.specs[s.Name] = s
	}
	for k, v := range cf.Ghosts {
		w.ghosts[k] = v
	}
}

// Load type-checks and builds SSA for the given package paths (with the
// verif build tag) from the repo working tree.
func (w *World) Load(pkgPaths []string) error {
	cfg := &packages.Config{
		Mode:       packages.LoadAllSyntax,
		Dir:        w.repo,
		BuildFlags: []string{"-tags=verif"},
		Overlay:    w.overlay,
		Env:        append(os.Environ(), "GOFLAGS=-mod=mod", "GOPROXY=off", "GOSUMDB=off", "GOTOOLCHAIN=local"),
	}
	pkgs, err := packages.Load(cfg, pkgPaths...)
	if err != nil {
		return err
	}
	var errs []string
	packages.Visit(pkgs, nil, func(p *packages.Package) {
		for _, e := range p.Errors {
			if strings.HasPrefix(p.PkgPath, modulePath) {
				errs = append(errs, e.Error())
			}
		}
	})
	if len(errs) > 0 {
		return fmt.Errorf("package errors (the tree does not compile with -tags verif):\n  %s", strings.Join(errs, "\n  "))
	}
	prog, _ := ssautil.AllPackages(pkgs, ssa.GlobalDebug|ssa.BareInits)
	w.prog = prog
	w.fset = prog.Fset
	w.pkgs = map[string]*packages.Package{}
	packages.Visit(pkgs, nil, func(p *packages.Package) {
		w.pkgs[p.PkgPath] = p
	})
	return nil
}

// findFunc locates the SSA function for a contract.
func (w *World) findFunc(c *Contract) *ssa.Function {
	p := w.pkgs[c.PkgPath]
	if p == nil {
		return nil
	}
	sp := w.prog.Package(p.Types)
	if sp == nil {
		return nil
	}
	sp.Build()
	key := c.Key
	if i := strings.Index(key, " @"); i >= 0 {
		key = key[:i] // a view of the function's contract
	}
	if strings.HasPrefix(key, "(") {
		// (*T).M or (T).M
		i := strings.Index(key, ").")
		if i < 0 {
			return nil
		}
		recv := key[1:i]
		meth := key[i+2:]
		ptr := strings.HasPrefix(recv, "*")
		recv = strings.TrimPrefix(recv, "*")
		tn, ok := p.Types.Scope().Lookup(recv).(*types.TypeName)
		if !ok {
			return nil
		}
		var rt types.Type = tn.Type()
		if ptr {
			rt = types.NewPointer(rt)
		}
		anon := ""
		if j := strings.Index(meth, "$"); j >= 0 {
			anon, meth = meth, meth[:j]
		}
		sel := w.prog.MethodSets.MethodSet(rt).Lookup(p.Types, meth)
		if sel == nil {
			return nil
		}
		mf := w.prog.MethodValue(sel)
		if anon == "" || mf == nil {
			return mf
		}
		return findAnon(mf, anon)
	}
	if i := strings.Index(key, "$"); i >= 0 {
		outer := sp.Func(key[:i])
		if outer == nil {
			return nil
		}
		return findAnon(outer, key)
	}
	return sp.Func(key)
}

// findAnon: the closure with this SSA name nested (at any depth) in fn.
func findAnon(fn *ssa.Function, name string) *ssa.Function {
	for _, af := range fn.AnonFuncs {
		if af.Name() == name {
			return af
		}
		if r := findAnon(af, name); r != nil {
			return r
		}
	}
	return nil
}
