package main

// Package-level variables that are initialised with a constant composite
// literal and never assigned are treated as constants (e.g.
// `var VALTYPE_ENC_INT64 = []byte{0x10}`).  The "never assigned" part is
// checked by scanning the SSA of the defining package for stores.

import (
	"go/ast"
	"go/constant"
	"go/types"

	"golang.org/x/tools/go/ssa"
)

type constGlobal struct {
	elems []constant.Value
	elemT types.Type
}

func (w *World) constGlobalOf(g *ssa.Global) *constGlobal {
	if w.constGlobals == nil {
		w.constGlobals = map[*ssa.Global]*constGlobal{}
	}
	if cg, ok := w.constGlobals[g]; ok {
		return cg
	}
	w.constGlobals[g] = nil
	if g.Pkg == nil {
		return nil
	}
	p := w.pkgs[g.Pkg.Pkg.Path()]
	if p == nil || p.TypesInfo == nil {
		return nil
	}
	sl, ok := g.Type().Underlying().(*types.Pointer).Elem().Underlying().(*types.Slice)
	if !ok {
		return nil
	}
	if _, _, isInt := intInfo(sl.Elem()); !isInt {
		return nil
	}
	var lit *ast.CompositeLit
	for _, f := range p.Syntax {
		for _, d := range f.Decls {
			gd, ok := d.(*ast.GenDecl)
			if !ok {
				continue
			}
			for _, s := range gd.Specs {
				vs, ok := s.(*ast.ValueSpec)
				if !ok {
					continue
				}
				for i, n := range vs.Names {
					if n.Name == g.Name() && i < len(vs.Values) {
						if cl, ok := vs.Values[i].(*ast.CompositeLit); ok {
							lit = cl
						}
					}
				}
			}
		}
	}
	if lit == nil {
		return nil
	}
	cg := &constGlobal{elemT: sl.Elem()}
	for _, e := range lit.Elts {
		tv, ok := p.TypesInfo.Types[e]
		if !ok || tv.Value == nil {
			return nil
		}
		cg.elems = append(cg.elems, tv.Value)
	}
	// never assigned (outside the synthetic init) and never written through
	sp := w.prog.Package(p.Types)
	if sp == nil {
		return nil
	}
	sp.Build()
	for _, m := range sp.Members {
		fn, ok := m.(*ssa.Function)
		if !ok {
			continue
		}
		if globalWritten(fn, g) {
			return nil
		}
	}
	w.constGlobals[g] = cg
	return cg
}

func globalWritten(fn *ssa.Function, g *ssa.Global) bool {
	if fn.Synthetic != "" && fn.Name() == "init" {
		return false
	}
	for _, b := range fn.Blocks {
		for _, in := range b.Instrs {
			switch x := in.(type) {
			case *ssa.Store:
				if x.Addr == g {
					return true
				}
				if ia, ok := x.Addr.(*ssa.IndexAddr); ok {
					if ld, ok := ia.X.(*ssa.UnOp); ok && ld.X == g {
						return true
					}
				}
			}
		}
	}
	for _, af := range fn.AnonFuncs {
		if globalWritten(af, g) {
			return true
		}
	}
	return false
}

// nonNilErrorGlobal: a package-level `var ErrX = errors.New(...)` (or
// fmt.Errorf) that is never assigned holds a non-nil error.
func (w *World) nonNilErrorGlobal(g *ssa.Global) bool {
	if w.errGlobals == nil {
		w.errGlobals = map[*ssa.Global]bool{}
	}
	if v, ok := w.errGlobals[g]; ok {
		return v
	}
	w.errGlobals[g] = false
	if g.Pkg == nil {
		return false
	}
	if _, ok := g.Type().Underlying().(*types.Pointer).Elem().Underlying().(*types.Interface); !ok {
		return false
	}
	// standard library sentinels
	if g.Pkg.Pkg.Path() == "io" && (g.Name() == "EOF" || g.Name() == "ErrUnexpectedEOF") {
		w.errGlobals[g] = true
		return true
	}
	p := w.pkgs[g.Pkg.Pkg.Path()]
	if p == nil || p.TypesInfo == nil {
		return false
	}
	found := false
	for _, f := range p.Syntax {
		for _, d := range f.Decls {
			gd, ok := d.(*ast.GenDecl)
			if !ok {
				continue
			}
			for _, s := range gd.Specs {
				vs, ok := s.(*ast.ValueSpec)
				if !ok {
					continue
				}
				for i, n := range vs.Names {
					if n.Name != g.Name() || i >= len(vs.Values) {
						continue
					}
					if ce, ok := vs.Values[i].(*ast.CallExpr); ok {
						if se, ok := ce.Fun.(*ast.SelectorExpr); ok {
							if id, ok := se.X.(*ast.Ident); ok {
								if (id.Name == "errors" && se.Sel.Name == "New") || (id.Name == "fmt" && se.Sel.Name == "Errorf") {
									found = true
								}
							}
						}
					}
				}
			}
		}
	}
	if !found {
		return false
	}
	sp := w.prog.Package(p.Types)
	if sp == nil {
		return false
	}
	sp.Build()
	for _, m := range sp.Members {
		if fn, ok := m.(*ssa.Function); ok && globalWritten(fn, g) {
			return false
		}
	}
	w.errGlobals[g] = true
	return true
}
