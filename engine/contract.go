package main

// Contract files: comment-only Go files (build tag verif) made of //@ lines.
// See DESIGN.md Appendix B.

import (
	"bufio"
	"fmt"
	"go/ast"
	"go/parser"
	"os"
	"path/filepath"
	"regexp"
	"strconv"
	"strings"
)

type Clause struct {
	Kind         string // requires ensures invariant assert assume ...
	Label        string
	Text         string
	Expr         ast.Expr
	File         string
	Line         int
	ThoroughOnly bool // checked only in the thorough tier (slow solver query)
}

type LoopSpec struct {
	Ordinal    int
	Invariants []*Clause
	Unroll     int
	Decreases  *Clause
}

type SiteSpec struct {
	Kind    string // call store mapupdate index slice conv return
	Text    string // normalised source text to match
	Ordinal int
	Asserts []*Clause
	Assumes []*Clause
	Ghosts  []*GhostUpdate
	Hints   []*Clause // integer terms offered as instantiation candidates for quantified facts (no logical content)
}

type BoundedSpec struct {
	File  string // harness, relative to /verif/bounded
	Test  string // test function name
	Bound string // the stated bound (free text, reported)
}

type GhostUpdate struct {
	Target string
	Value  *Clause
}

type SpecFn struct {
	Name   string
	Params []SpecParam
	Result string
	Body   ast.Expr
	Text   string
	Pkg    string // package path where declared
	File   string
	Line   int
}

type SpecParam struct{ Name, Type string }

type Contract struct {
	PkgPath string // import path of the package (or "" for stdlib.assumed)
	Key     string // "Name" | "(*T).Name" | "(T).Name" ; for assumed externals the full name
	Props   []string
	// View: "" for the primary contract; "name" for `func F @name`
	View     string
	Mode     Mode
	ModeSet  bool
	Requires []*Clause
	// GhostInit: initial values of this function's own ghost instrumentation
	// (`ghostinit ghost(k,"n") == c && ...`): assumed at entry, NOT an
	// obligation of callers; callers see the named ghosts as written.
	GhostInit []*Clause
	Ensures   []*Clause
	Safe      bool
	Pure      bool
	Modifies  []string
	Preserves []string
	// PrivateCaptures (closures): the variables captured by reference are
	// written only by this closure while it runs (calls made by the closure do
	// not reach them).  ASSUMPTION, reported in the evidence.
	PrivateCaptures bool
	// AssumeCalleeRequires: the preconditions of contracted callees are NOT
	// proved at the call sites of this function but assumed there (the
	// function is under contract for its site assertions only).  ASSUMPTION,
	// reported in the evidence.
	AssumeCalleeRequires bool
	// PrivateParams: pointer parameters whose target cell is written only by
	// this function while it runs.  CHECKED, not assumed, for unexported
	// functions: every call in the package passes the address of a local
	// variable that is otherwise only loaded and stored (see
	// checkPrivateParams); for exported functions it is an assumption.
	PrivateParams []string
	// RecvInv: representation invariant of the receiver's type, written over
	// the receiver's name.  ASSUMED at entry (receiver non-nil), PROVED at every
	// return, never an obligation of callers.  Justified by closedness, which
	// is checked: every function of the package that stores to a field of the
	// receiver's struct type carries this clause itself (checkRecvInvClosed).
	RecvInv     []*Clause
	RecvInvName string
	// Establishes: this function is a constructor of a type with a recvinv:
	// it proves the invariant for the object it returns (clause `establishes`).
	Establishes bool
	// AbstractFloatDiv: floating-point quotients are translated as an
	// uninterpreted function of their operands instead of IEEE division (an
	// over-approximation: sound, costs precision only); for functions whose
	// contract does not speak about the quotients, where bit-blasting the
	// dividers dominates the solver time.
	AbstractFloatDiv bool
	// Bounded stand-in (never counted as proved): an exhaustive test of the
	// real function up to a stated bound, injected with `go test -overlay`.
	Bounded *BoundedSpec
	Assumed bool
	Lemma   bool
	NonNil  bool // externals: result is non-nil
	Loops   map[int]*LoopSpec
	Sites   []*SiteSpec
	Notes   []string
	File    string
	Line    int
}

type ContractFile struct {
	Path      string
	PkgPath   string
	Contracts []*Contract
	Specs     []*SpecFn
	Assumes   int // number of `assume` clauses (scan for the evidence file)
	Ghosts    map[string]string
}

var kwRe = regexp.MustCompile(`^(func|props|mode|requires|ghostinit|ensures_thorough|ensures|safe|pure|bounded|privatecaptures|privateparam|abstractfloatdiv|recvinv|establishes|assumecalleerequires|modifies|preserves|assumed|lemma|nonnil|loop|invariant|unroll|decreases|site|assert|assume|hint|ghostset|ghostdecl|spec|note|end)\b`)

// every element of a ghost sequence starts at a constant: forallkey(s, T, ghostat(obj, f(s), "name") == c)
var ghostInitAllRe = regexp.MustCompile(`^forallkey\(\w+,\s*[\w.]+,\s*ghostat\(.*,\s*"[A-Za-z0-9_]+"\)\s*==\s*-?[0-9]+\)$`)
var ghostInitRe = regexp.MustCompile(`^ghost\([A-Za-z0-9_.]+,\s*"[A-Za-z0-9_]+"\)\s*==\s*-?[0-9]+$`)
var ghostNameRe = regexp.MustCompile(`ghost(?:at)?\((?:[^"]*)"([A-Za-z0-9_]+)"\)`)
var labelRe = regexp.MustCompile(`^\[([A-Za-z0-9_.\-]+)\]\s*`)

func parseExprClause(kind, text, file string, line int) (*Clause, error) {
	c := &Clause{Kind: kind, File: file, Line: line}
	text = strings.TrimSpace(text)
	if m := labelRe.FindStringSubmatch(text); m != nil {
		c.Label = m[1]
		text = text[len(m[0]):]
	}
	c.Text = text
	e, err := parser.ParseExpr(text)
	if err != nil {
		return nil, fmt.Errorf("%s:%d: cannot parse %s expression %q: %v", file, line, kind, text, err)
	}
	c.Expr = e
	return c, nil
}

// ParseContractFile parses one contract file.  pkgPath is the import path the
// file belongs to.
func ParseContractFile(path, pkgPath string) (*ContractFile, error) {
	f, err := os.Open(path)
	if err != nil {
		return nil, err
	}
	defer f.Close()
	cf := &ContractFile{Path: path, PkgPath: pkgPath}

	type rawLine struct {
		text string
		line int
	}
	var lines []rawLine
	sc := bufio.NewScanner(f)
	sc.Buffer(make([]byte, 1<<20), 1<<20)
	ln := 0
	for sc.Scan() {
		ln++
		s := strings.TrimSpace(sc.Text())
		if strings.HasPrefix(s, "// @") { // gofmt rewrites //@ in doc comments
			s = "//@" + s[4:]
		}
		if !strings.HasPrefix(s, "//@") {
			continue
		}
		s = strings.TrimSpace(s[3:])
		if s == "" || strings.HasPrefix(s, "#") {
			continue
		}
		// strip trailing " // comment" only when preceded by two spaces
		if i := strings.Index(s, "  // "); i >= 0 {
			s = strings.TrimSpace(s[:i])
		}
		if kwRe.MatchString(s) {
			lines = append(lines, rawLine{s, ln})
		} else if len(lines) > 0 {
			lines[len(lines)-1].text += " " + s
		} else {
			return nil, fmt.Errorf("%s:%d: continuation line without a clause", path, ln)
		}
	}

	var cur *Contract
	var curLoop *LoopSpec
	var curSite *SiteSpec
	for _, rl := range lines {
		kw := kwRe.FindString(rl.text)
		rest := strings.TrimSpace(rl.text[len(kw):])
		if kw == "ghostdecl" {
			fs := strings.Fields(rest)
			if len(fs) != 2 {
				return nil, fmt.Errorf("%s:%d: ghostdecl <name> <type>", path, rl.line)
			}
			if cf.Ghosts == nil {
				cf.Ghosts = map[string]string{}
			}
			cf.Ghosts[fs[0]] = fs[1]
			continue
		}
		if kw != "func" && kw != "spec" && cur == nil {
			return nil, fmt.Errorf("%s:%d: clause %q outside a func block", path, rl.line, kw)
		}
		switch kw {
		case "func":
			key := strings.Join(strings.Fields(rest), " ")
			cur = &Contract{PkgPath: pkgPath, Key: key, Loops: map[int]*LoopSpec{}, File: path, Line: rl.line}
			if i := strings.Index(key, " @"); i >= 0 {
				cur.View = strings.TrimSpace(key[i+2:])
				cur.Key = key[:i] + " @" + cur.View
			}
			cf.Contracts = append(cf.Contracts, cur)
			curLoop, curSite = nil, nil
		case "end":
			cur, curLoop, curSite = nil, nil, nil
		case "props":
			cur.Props = append(cur.Props, strings.Fields(rest)...)
		case "mode":
			cur.ModeSet = true
			switch rest {
			case "int":
				cur.Mode = ModeInt
			case "real":
				cur.Mode = ModeReal
			case "bv":
				cur.Mode = ModeBV
			default:
				return nil, fmt.Errorf("%s:%d: unknown mode %q", path, rl.line, rest)
			}
		case "requires", "ensures", "ensures_thorough":
			c, err := parseExprClause(kw, rest, path, rl.line)
			if err != nil {
				return nil, err
			}
			if kw == "ensures_thorough" {
				c.ThoroughOnly = true
			}
			if kw == "requires" {
				cur.Requires = append(cur.Requires, c)
			} else {
				cur.Ensures = append(cur.Ensures, c)
			}
			curLoop, curSite = nil, nil
		case "ghostinit":
			c, err := parseExprClause(kw, rest, path, rl.line)
			if err != nil {
				return nil, err
			}
			for _, conj := range strings.Split(c.Text, "&&") {
				if !ghostInitRe.MatchString(strings.TrimSpace(conj)) && !ghostInitAllRe.MatchString(strings.TrimSpace(conj)) {
					return nil, fmt.Errorf("%s:%d: ghostinit must be a conjunction of ghost(k,\"name\") == constant or forallkey(s, T, ghostat(o, f(s), \"name\") == constant)", path, rl.line)
				}
			}
			cur.GhostInit = append(cur.GhostInit, c)
			curLoop, curSite = nil, nil
		case "bounded":
			// bounded <file> <TestName> <bound text...>
			fs := strings.Fields(rest)
			if len(fs) < 3 {
				return nil, fmt.Errorf("%s:%d: bounded needs <file> <TestName> <stated bound>", path, rl.line)
			}
			cur.Bounded = &BoundedSpec{File: fs[0], Test: fs[1], Bound: strings.Join(fs[2:], " ")}
		case "assumecalleerequires":
			cur.AssumeCalleeRequires = true
		case "privatecaptures":
			cur.PrivateCaptures = true
		case "abstractfloatdiv":
			cur.AbstractFloatDiv = true
		case "recvinv":
			fs := strings.Fields(rest)
			if len(fs) < 2 {
				return nil, fmt.Errorf("%s:%d: recvinv <receiver name> <invariant over it>", path, rl.line)
			}
			body := strings.TrimSpace(rest[len(fs[0]):])
			c, err := parseExprClause("ensures", fmt.Sprintf("[representation-invariant] implies(%s != nil, %s)", fs[0], body), path, rl.line)
			if err != nil {
				return nil, err
			}
			cur.RecvInv = append(cur.RecvInv, c)
			cur.RecvInvName = fs[0]
			cur.Ensures = append(cur.Ensures, c)
		case "establishes":
			// constructor side of a recvinv: the named result satisfies the
			// invariant when it is returned (an ordinary postcondition; the
			// clause also tells the closedness check that this writer of
			// the type's fields proves the invariant)
			fs := strings.Fields(rest)
			if len(fs) < 2 {
				return nil, fmt.Errorf("%s:%d: establishes <result name> <invariant over it>", path, rl.line)
			}
			body := strings.TrimSpace(rest[len(fs[0]):])
			c, err := parseExprClause("ensures", fmt.Sprintf("[representation-invariant-established] implies(%s != nil, %s)", fs[0], body), path, rl.line)
			if err != nil {
				return nil, err
			}
			cur.Establishes = true
			cur.Ensures = append(cur.Ensures, c)
		case "privateparam":
			cur.PrivateParams = append(cur.PrivateParams, strings.Fields(rest)...)
		case "safe":
			cur.Safe = true
		case "pure":
			cur.Pure = true
		case "assumed":
			cur.Assumed = true
		case "lemma":
			cur.Lemma = true
		case "nonnil":
			cur.NonNil = true
		case "note":
			cur.Notes = append(cur.Notes, rest)
		case "modifies":
			for _, m := range splitTopLevel(rest) {
				if m = strings.TrimSpace(m); m != "" {
					cur.Modifies = append(cur.Modifies, m)
				}
			}
		case "preserves":
			// frame by exclusion (assumed contracts only): anything may change
			// except the listed heap components
			for _, m := range splitTopLevel(rest) {
				if m = strings.TrimSpace(m); m != "" {
					cur.Preserves = append(cur.Preserves, m)
				}
			}
		case "loop":
			rest = strings.TrimSuffix(rest, ":")
			n, err := strconv.Atoi(strings.TrimSpace(rest))
			if err != nil {
				return nil, fmt.Errorf("%s:%d: bad loop ordinal %q", path, rl.line, rest)
			}
			curLoop = &LoopSpec{Ordinal: n}
			cur.Loops[n] = curLoop
			curSite = nil
		case "invariant":
			if curLoop == nil {
				return nil, fmt.Errorf("%s:%d: invariant outside loop", path, rl.line)
			}
			c, err := parseExprClause(kw, rest, path, rl.line)
			if err != nil {
				return nil, err
			}
			curLoop.Invariants = append(curLoop.Invariants, c)
		case "unroll":
			if curLoop == nil {
				return nil, fmt.Errorf("%s:%d: unroll outside loop", path, rl.line)
			}
			n, err := strconv.Atoi(rest)
			if err != nil {
				return nil, fmt.Errorf("%s:%d: bad unroll %q", path, rl.line, rest)
			}
			curLoop.Unroll = n
		case "decreases":
			if curLoop == nil {
				return nil, fmt.Errorf("%s:%d: decreases outside loop", path, rl.line)
			}
			c, err := parseExprClause(kw, rest, path, rl.line)
			if err != nil {
				return nil, err
			}
			curLoop.Decreases = c
		case "site":
			// site <kind> <text> #n:
			rest = strings.TrimSuffix(strings.TrimSpace(rest), ":")
			ord := 1
			if i := strings.LastIndex(rest, "#"); i >= 0 {
				if n, err := strconv.Atoi(strings.TrimSpace(rest[i+1:])); err == nil {
					ord = n
					rest = strings.TrimSpace(rest[:i])
				}
			}
			parts := strings.SplitN(rest, " ", 2)
			s := &SiteSpec{Kind: parts[0], Ordinal: ord}
			if len(parts) > 1 {
				s.Text = normText(parts[1])
			}
			cur.Sites = append(cur.Sites, s)
			curSite = s
			curLoop = nil
		case "assert", "assume":
			if curSite == nil {
				return nil, fmt.Errorf("%s:%d: %s outside site", path, rl.line, kw)
			}
			c, err := parseExprClause(kw, rest, path, rl.line)
			if err != nil {
				return nil, err
			}
			if kw == "assert" {
				curSite.Asserts = append(curSite.Asserts, c)
			} else {
				curSite.Assumes = append(curSite.Assumes, c)
				cf.Assumes++
			}
		case "hint":
			if curSite == nil {
				return nil, fmt.Errorf("%s:%d: hint outside site", path, rl.line)
			}
			c, err := parseExprClause(kw, rest, path, rl.line)
			if err != nil {
				return nil, err
			}
			curSite.Hints = append(curSite.Hints, c)
		case "ghostset":
			if curSite == nil {
				return nil, fmt.Errorf("%s:%d: ghostset outside site", path, rl.line)
			}
			i := strings.Index(rest, "=")
			if i < 0 {
				return nil, fmt.Errorf("%s:%d: ghostset needs =", path, rl.line)
			}
			c, err := parseExprClause(kw, rest[i+1:], path, rl.line)
			if err != nil {
				return nil, err
			}
			curSite.Ghosts = append(curSite.Ghosts, &GhostUpdate{Target: strings.TrimSpace(rest[:i]), Value: c})
		case "spec":
			sp, err := parseSpec(rest, path, rl.line)
			if err != nil {
				return nil, err
			}
			sp.Pkg = pkgPath
			cf.Specs = append(cf.Specs, sp)
		}
	}
	return cf, nil
}

var specRe = regexp.MustCompile(`^([A-Za-z_][A-Za-z0-9_]*)\s*\(([^)]*)\)\s*([A-Za-z0-9_.\[\]\*]+)\s*=\s*(.*)$`)

func parseSpec(text, file string, line int) (*SpecFn, error) {
	m := specRe.FindStringSubmatch(text)
	if m == nil {
		return nil, fmt.Errorf("%s:%d: bad spec declaration %q", file, line, text)
	}
	sp := &SpecFn{Name: m[1], Result: m[3], Text: m[4], File: file, Line: line}
	ps := strings.TrimSpace(m[2])
	if ps != "" {
		// "a, b int64, c float64" style
		var pending []string
		for _, part := range strings.Split(ps, ",") {
			fs := strings.Fields(part)
			switch len(fs) {
			case 1:
				pending = append(pending, fs[0])
			case 2:
				for _, p := range pending {
					sp.Params = append(sp.Params, SpecParam{p, fs[1]})
				}
				pending = nil
				sp.Params = append(sp.Params, SpecParam{fs[0], fs[1]})
			default:
				return nil, fmt.Errorf("%s:%d: bad spec parameter %q", file, line, part)
			}
		}
		if len(pending) > 0 {
			return nil, fmt.Errorf("%s:%d: spec parameters without type: %v", file, line, pending)
		}
	}
	e, err := parser.ParseExpr(sp.Text)
	if err != nil {
		return nil, fmt.Errorf("%s:%d: cannot parse spec body %q: %v", file, line, sp.Text, err)
	}
	sp.Body = e
	return sp, nil
}

// normText normalises source text for site / obligation matching.
func normText(s string) string {
	return strings.Join(strings.Fields(s), "")
}

func (c *Contract) hasProp(p string) bool {
	for _, x := range c.Props {
		if x == p {
			return true
		}
	}
	return false
}

// findContractFiles returns repo-relative package dirs that have a contract
// file, looking both in the repo working tree and in the mirror.
func findContractFiles(repo, mirror string) (map[string]string, map[string]bool, error) {
	res := map[string]string{} // pkg dir (relative) -> file path to use
	fromMirror := map[string]bool{}
	walk := func(root string, isMirror bool) error {
		return filepath.Walk(root, func(p string, info os.FileInfo, err error) error {
			if err != nil {
				return nil
			}
			if info.IsDir() {
				n := info.Name()
				if n == ".git" || n == "node_modules" || n == "static" {
					return filepath.SkipDir
				}
				return nil
			}
			if !strings.HasPrefix(info.Name(), "zz_verif_") || !strings.HasSuffix(info.Name(), ".go") {
				return nil
			}
			rel, _ := filepath.Rel(root, p)
			if isMirror {
				if _, ok := res[rel]; ok && os.Getenv("GOVC_PREFER_MIRROR") == "" {
					return nil
				}
				fromMirror[rel] = true
			}
			res[rel] = p
			return nil
		})
	}
	if err := walk(filepath.Join(repo, "pkg"), false); err != nil {
		return nil, nil, err
	}
	if mirror != "" {
		if _, err := os.Stat(filepath.Join(mirror, "pkg")); err == nil {
			// mirror layout: <mirror>/pkg/... ; keys must be comparable with repo ones
			if err := walk(filepath.Join(mirror, "pkg"), true); err != nil {
				return nil, nil, err
			}
		}
	}
	return res, fromMirror, nil
}

// splitTopLevel splits at commas that are not inside parentheses/brackets.
func splitTopLevel(s string) []string {
	var parts []string
	depth, start := 0, 0
	for i, r := range s {
		switch r {
		case '(', '[':
			depth++
		case ')', ']':
			depth--
		case ',':
			if depth == 0 {
				parts = append(parts, s[start:i])
				start = i + 1
			}
		}
	}
	return append(parts, s[start:])
}
