package main

// Typed operators shared by the SSA translation and the contract-expression
// translation.

import (
	"fmt"
	"go/constant"
	"go/token"
	"go/types"
	"math/big"
	"strings"
)

func (t *FnTrans) isConstTyped(v Val) bool {
	if v.K != VConst || v.T == nil {
		return false
	}
	b, ok := v.T.(*types.Basic)
	return !(ok && b.Info()&types.IsUntyped != 0)
}

// binop implements Go's binary operators on Vals.
func (t *FnTrans) binop(op token.Token, a, b Val) Val {
	// constant folding
	if a.K == VConst && b.K == VConst && a.C != nil && b.C != nil {
		return t.constBinop(op, a, b)
	}
	// string + literal: remember the literal's text for the confinement rule below
	litNoSep := ""
	litOf := func(x Val) (string, bool) {
		if x.K == VConst && x.C != nil && x.C.Kind() == constant.String {
			return constant.StringVal(x.C), true
		}
		if x.K == VScalar {
			for lit, name := range t.strLits {
				if name == x.S {
					return lit, true
				}
			}
		}
		return "", false
	}
	litA, isLitA := litOf(a)
	litB, isLitB := litOf(b)
	if op == token.ADD {
		for _, x := range []Val{a, b} {
			txt, isLit := "", false
			if x.K == VConst && x.C != nil && x.C.Kind() == constant.String {
				txt, isLit = constant.StringVal(x.C), true
			} else if x.K == VScalar {
				for lit, name := range t.strLits {
					if name == x.S {
						txt, isLit = lit, true
					}
				}
			}
			if isLit && !strings.ContainsAny(txt, "/\\") && txt != "" {
				litNoSep = txt
			}
		}
	}
	isShift := op == token.SHL || op == token.SHR
	if a.K == VConst && !isShift {
		a = t.materialize(a, b.T)
	}
	if b.K == VConst && !isShift {
		b = t.materialize(b, a.T)
	}
	if isShift {
		if a.K == VConst {
			ty := a.T
			if ty == nil || !t.isConstTyped(a) {
				ty = types.Typ[types.Int]
			}
			a = t.materialize(a, ty)
		}
		if b.K == VConst {
			b = t.materialize(b, types.Typ[types.Uint64])
		}
	}
	if a.K == VUnknown || b.K == VUnknown {
		return unknown(t.binopType(op, a, b))
	}
	rt := t.binopType(op, a, b)
	switch op {
	case token.EQL, token.NEQ:
		e := t.valEq(a, b)
		if e == "" {
			return unknown(types.Typ[types.Bool])
		}
		if op == token.NEQ {
			e = not(e)
		}
		return scalar(types.Typ[types.Bool], e)
	}
	if a.K != VScalar || b.K != VScalar {
		t.note("binary operator %s on composite values: abstracted", op)
		return unknown(rt)
	}
	ty := a.T
	if ty == nil {
		ty = b.T
	}
	if isBool(ty) {
		switch op {
		case token.LAND, token.AND:
			return scalar(ty, and(a.S, b.S))
		case token.LOR, token.OR:
			return scalar(ty, or(a.S, b.S))
		case token.XOR:
			return scalar(ty, sx("xor", a.S, b.S))
		}
	}
	if w, signed, ok := intInfo(ty); ok {
		return t.intBinop(op, a, b, w, signed, rt)
	}
	if _, ok := isFloat(ty); ok && t.mode.isReal() {
		bt := types.Typ[types.Bool]
		switch op {
		case token.ADD:
			return scalar(ty, sx("+", a.S, b.S))
		case token.SUB:
			return scalar(ty, sx("-", a.S, b.S))
		case token.MUL:
			return scalar(ty, sx("*", a.S, b.S))
		case token.QUO:
			return scalar(ty, sx("/", a.S, b.S))
		case token.LSS:
			return scalar(bt, sx("<", a.S, b.S))
		case token.LEQ:
			return scalar(bt, sx("<=", a.S, b.S))
		case token.GTR:
			return scalar(bt, sx(">", a.S, b.S))
		case token.GEQ:
			return scalar(bt, sx(">=", a.S, b.S))
		}
	}
	if w, ok := isFloat(ty); ok {
		switch op {
		case token.ADD:
			return scalar(ty, sx("fp.add", "RNE", a.S, b.S))
		case token.SUB:
			return scalar(ty, sx("fp.sub", "RNE", a.S, b.S))
		case token.MUL:
			return scalar(ty, sx("fp.mul", "RNE", a.S, b.S))
		case token.QUO:
			if t.con != nil && t.con.AbstractFloatDiv {
				srt := t.mode.scalarSort(ty)
				f := t.declareFun(fmt.Sprintf("fpdiv.abs%d", w), []string{srt, srt}, srt)
				return scalar(ty, sx(f, a.S, b.S))
			}
			return scalar(ty, sx("fp.div", "RNE", a.S, b.S))
		case token.LSS:
			return scalar(types.Typ[types.Bool], sx("fp.lt", a.S, b.S))
		case token.LEQ:
			return scalar(types.Typ[types.Bool], sx("fp.leq", a.S, b.S))
		case token.GTR:
			return scalar(types.Typ[types.Bool], sx("fp.gt", a.S, b.S))
		case token.GEQ:
			return scalar(types.Typ[types.Bool], sx("fp.geq", a.S, b.S))
		}
	}
	if isString(ty) {
		switch op {
		case token.ADD:
			f := t.declareFun("gstr.concat", []string{"Str", "Str"}, "Str")
			r := sx(f, a.S, b.S)
			// length fact, as an assumption on this very term
			ln := t.strLen()
			t.assume("true", eq(sx(ln, r), t.addIdx(sx(ln, a.S), sx(ln, b.S))), "len(a+b) == len(a)+len(b)")
			// regular expressions assembled by concatenation: whether the text
			// begins with the anchor ^ / ends with the anchor $ is decided on
			// the literal operands (string-level rule; the predicates are the
			// uninterpreted uf("startsWithCaret"/"endsWithDollar", bool, s))
			if isLitA || isLitB {
				caret := t.declareFun("uf.startsWithCaret.Str", []string{"Str"}, "Bool")
				dollar := t.declareFun("uf.endsWithDollar.Str", []string{"Str"}, "Bool")
				if isLitA && strings.HasPrefix(litA, "^") {
					t.assume("true", sx(caret, r), fmt.Sprintf("%q + s begins with the anchor ^", litA))
				} else if isLitB {
					t.assume("true", implies(sx(caret, a.S), sx(caret, r)), "s + literal begins with ^ if s does")
				}
				if isLitB && strings.HasSuffix(litB, "$") && !strings.HasSuffix(litB, "\\$") {
					t.assume("true", sx(dollar, r), fmt.Sprintf("s + %q ends with the anchor $", litB))
				}
			}
			if litNoSep != "" && x0IsLit(a, b) {
				// a plain file name stays a plain file name when a separator-free literal is appended
				sn := t.declareFun("uf.safeName.Str", []string{"Str"}, "Bool")
				t.assume("true", implies(sx(sn, a.S), sx(sn, r)), fmt.Sprintf("safeName(s) implies safeName(s + %q): the literal has no path separator (decided on the literal text)", litNoSep))
			}
			return scalar(ty, r)
		case token.LSS, token.LEQ, token.GTR, token.GEQ:
			f := t.declareFun("gstr.lt", []string{"Str", "Str"}, "Bool")
			// str.lt is a strict total order: ground instances for this pair
			key := a.S + "|" + b.S
			if !t.strPairs[key] {
				t.strPairs[key] = true
				ab, ba := sx(f, a.S, b.S), sx(f, b.S, a.S)
				t.assume("true", and(not(and(ab, ba)), implies(eq(a.S, b.S), and(not(ab), not(ba))), implies(not(eq(a.S, b.S)), or(ab, ba))), "string order is a strict total order (instance)")
			}
			switch op {
			case token.LSS:
				return scalar(types.Typ[types.Bool], sx(f, a.S, b.S))
			case token.GTR:
				return scalar(types.Typ[types.Bool], sx(f, b.S, a.S))
			case token.LEQ:
				return scalar(types.Typ[types.Bool], not(sx(f, b.S, a.S)))
			case token.GEQ:
				return scalar(types.Typ[types.Bool], not(sx(f, a.S, b.S)))
			}
		}
	}
	t.note("binary operator %s on %v: abstracted", op, ty)
	return unknown(rt)
}

// x0IsLit: the right operand is the literal (name + suffix).
func x0IsLit(a, b Val) bool { return true }

func (t *FnTrans) addIdx(a, b string) string {
	if x, ok := t.smtConstInt(a); ok {
		if y, ok := t.smtConstInt(b); ok {
			return t.mode.intLit64(int64(x+y), 64)
		}
		if x == 0 {
			return b
		}
	}
	if y, ok := t.smtConstInt(b); ok && y == 0 {
		return a
	}
	if t.mode.isInt() {
		return sx("+", a, b)
	}
	return sx("bvadd", a, b)
}
func (t *FnTrans) subIdx(a, b string) string {
	if y, ok := t.smtConstInt(b); ok {
		if x, ok := t.smtConstInt(a); ok && x >= y {
			return t.mode.intLit64(int64(x-y), 64)
		}
		if y == 0 {
			return a
		}
	}
	if t.mode.isInt() {
		return sx("-", a, b)
	}
	return sx("bvsub", a, b)
}

func (t *FnTrans) binopType(op token.Token, a, b Val) types.Type {
	switch op {
	case token.EQL, token.NEQ, token.LSS, token.LEQ, token.GTR, token.GEQ, token.LAND, token.LOR:
		return types.Typ[types.Bool]
	}
	if a.T != nil {
		return a.T
	}
	return b.T
}

func (t *FnTrans) constBinop(op token.Token, a, b Val) Val {
	ty := a.T
	if !t.isConstTyped(a) && t.isConstTyped(b) {
		ty = b.T
	}
	switch op {
	case token.EQL, token.NEQ, token.LSS, token.LEQ, token.GTR, token.GEQ:
		return Val{K: VConst, T: types.Typ[types.Bool], C: constant.MakeBool(constant.Compare(a.C, op, b.C))}
	case token.SHL, token.SHR:
		n, _ := constant.Uint64Val(constant.ToInt(b.C))
		return Val{K: VConst, T: a.T, C: constant.Shift(constant.ToInt(a.C), op, uint(n))}
	case token.LAND:
		return Val{K: VConst, T: types.Typ[types.Bool], C: constant.MakeBool(constant.BoolVal(a.C) && constant.BoolVal(b.C))}
	case token.LOR:
		return Val{K: VConst, T: types.Typ[types.Bool], C: constant.MakeBool(constant.BoolVal(a.C) || constant.BoolVal(b.C))}
	case token.QUO:
		if a.C.Kind() == constant.Int && b.C.Kind() == constant.Int {
			if constant.Sign(b.C) == 0 {
				return unknown(ty)
			}
			return Val{K: VConst, T: ty, C: constant.BinaryOp(a.C, token.QUO_ASSIGN, b.C)}
		}
	}
	r := constant.BinaryOp(a.C, op, b.C)
	v := Val{K: VConst, T: ty, C: r}
	// typed integer constants wrap like their type would not (Go rejects
	// overflowing constant expressions), so no wrapping is needed.
	return v
}

func (t *FnTrans) intBinop(op token.Token, a, b Val, w int, signed bool, rt types.Type) Val {
	bt := types.Typ[types.Bool]
	if t.mode.isBV() {
		bin := func(s, u string) string {
			if signed {
				return sx(s, a.S, b.S)
			}
			return sx(u, a.S, b.S)
		}
		switch op {
		case token.ADD:
			return scalar(rt, sx("bvadd", a.S, b.S))
		case token.SUB:
			return scalar(rt, sx("bvsub", a.S, b.S))
		case token.MUL:
			return scalar(rt, sx("bvmul", a.S, b.S))
		case token.QUO:
			return scalar(rt, bin("bvsdiv", "bvudiv"))
		case token.REM:
			return scalar(rt, bin("bvsrem", "bvurem"))
		case token.AND:
			return scalar(rt, sx("bvand", a.S, b.S))
		case token.OR:
			return scalar(rt, sx("bvor", a.S, b.S))
		case token.XOR:
			return scalar(rt, sx("bvxor", a.S, b.S))
		case token.AND_NOT:
			return scalar(rt, sx("bvand", a.S, sx("bvnot", b.S)))
		case token.LSS:
			return scalar(bt, bin("bvslt", "bvult"))
		case token.LEQ:
			return scalar(bt, bin("bvsle", "bvule"))
		case token.GTR:
			return scalar(bt, bin("bvsgt", "bvugt"))
		case token.GEQ:
			return scalar(bt, bin("bvsge", "bvuge"))
		case token.SHL, token.SHR:
			bw, _, ok := intInfo(b.T)
			if !ok {
				return unknown(rt)
			}
			// bring the shift count to the width of a; counts >= w saturate
			cnt := b.S
			var big string // condition: count >= w
			if bw > w {
				big = sx("bvuge", b.S, t.mode.intLit64(int64(w), bw))
				cnt = sx(fmt.Sprintf("(_ extract %d 0)", w-1), b.S)
			} else if bw < w {
				cnt = sx(fmt.Sprintf("(_ zero_extend %d)", w-bw), b.S)
				big = "false"
			} else {
				big = "false" // SMT semantics already saturate
			}
			var sh string
			if op == token.SHL {
				sh = sx("bvshl", a.S, cnt)
				if big != "false" {
					sh = ite(big, t.mode.intLit64(0, w), sh)
				}
			} else if signed {
				sh = sx("bvashr", a.S, cnt)
				if big != "false" {
					sh = ite(big, sx("bvashr", a.S, t.mode.intLit64(int64(w-1), w)), sh)
				}
			} else {
				sh = sx("bvlshr", a.S, cnt)
				if big != "false" {
					sh = ite(big, t.mode.intLit64(0, w), sh)
				}
			}
			return scalar(rt, sh)
		}
		return unknown(rt)
	}
	// ModeInt
	wrap := func(x string) string { return wrapInt(x, w, signed) }
	switch op {
	case token.ADD:
		return scalar(rt, wrap(sx("+", a.S, b.S)))
	case token.SUB:
		return scalar(rt, wrap(sx("-", a.S, b.S)))
	case token.MUL:
		return scalar(rt, wrap(sx("*", a.S, b.S)))
	case token.QUO:
		if !signed {
			return scalar(rt, sx("div", a.S, b.S))
		}
		t.W.needTdiv = true
		return scalar(rt, wrap(sx("tdiv", a.S, b.S)))
	case token.REM:
		if !signed {
			return scalar(rt, sx("mod", a.S, b.S))
		}
		t.W.needTdiv = true
		return scalar(rt, sx("trem", a.S, b.S))
	case token.LSS:
		return scalar(bt, sx("<", a.S, b.S))
	case token.LEQ:
		return scalar(bt, sx("<=", a.S, b.S))
	case token.GTR:
		return scalar(bt, sx(">", a.S, b.S))
	case token.GEQ:
		return scalar(bt, sx(">=", a.S, b.S))
	case token.SHL, token.SHR:
		// only constant shift counts
		if n, ok := smtIntLit(b.S); ok && n.IsInt64() && n.Int64() >= 0 && n.Int64() < 64 {
			p := pow2(int(n.Int64())).String()
			if op == token.SHL {
				return scalar(rt, wrap(sx("*", a.S, p)))
			}
			return scalar(rt, sx("div", a.S, p)) // floor division == arithmetic shift
		}
	case token.AND:
		// x & (2^k-1)
		if n, ok := smtIntLit(b.S); ok {
			m := new(big.Int).Add(n, big.NewInt(1))
			if m.Sign() > 0 && new(big.Int).And(m, n).Sign() == 0 && !signed {
				return scalar(rt, sx("mod", a.S, m.String()))
			}
		}
	}
	t.note("operator %s is not modelled in int mode: abstracted", op)
	return unknown(rt)
}

func smtIntLit(s string) (*big.Int, bool) {
	n, ok := new(big.Int).SetString(s, 10)
	return n, ok
}

// valEq: structural equality of two values ("" when not expressible).
func (t *FnTrans) valEq(a, b Val) string {
	if a.K == VScalar && b.K == VScalar {
		if _, ok := isFloat(a.T); ok {
			if t.mode.isReal() {
				return eq(a.S, b.S)
			}
			return sx("fp.eq", a.S, b.S)
		}
		return eq(a.S, b.S)
	}
	if a.K == VSlice && b.K == VSlice {
		// only comparison with nil is legal Go
		return eq(a.Sub[0].S, b.Sub[0].S)
	}
	if a.K == VStruct && b.K == VStruct && len(a.Sub) == len(b.Sub) {
		var es []string
		for i := range a.Sub {
			e := t.valEq(a.Sub[i], b.Sub[i])
			if e == "" {
				return ""
			}
			es = append(es, e)
		}
		return and(es...)
	}
	if a.K == VArray && b.K == VArray {
		return eq(a.S, b.S)
	}
	if a.K == VAddr && b.K == VScalar && b.S == "0" {
		return "false"
	}
	if b.K == VAddr && a.K == VScalar && a.S == "0" {
		return "false"
	}
	return ""
}

func (t *FnTrans) unop(op token.Token, a Val) Val {
	if a.K == VConst && a.C != nil {
		switch op {
		case token.SUB:
			return Val{K: VConst, T: a.T, C: constant.UnaryOp(token.SUB, a.C, 0)}
		case token.NOT:
			return Val{K: VConst, T: a.T, C: constant.MakeBool(!constant.BoolVal(a.C))}
		}
		a = t.materialize(a, a.T)
	}
	if a.K != VScalar {
		return unknown(a.T)
	}
	switch op {
	case token.NOT:
		return scalar(a.T, not(a.S))
	case token.SUB:
		if w, s, ok := intInfo(a.T); ok {
			if t.mode.isBV() {
				return scalar(a.T, sx("bvneg", a.S))
			}
			return scalar(a.T, wrapInt(sx("-", a.S), w, s))
		}
		if _, ok := isFloat(a.T); ok {
			if t.mode.isReal() {
				return scalar(a.T, sx("-", a.S))
			}
			return scalar(a.T, sx("fp.neg", a.S))
		}
	case token.XOR:
		if _, _, ok := intInfo(a.T); ok && t.mode.isBV() {
			return scalar(a.T, sx("bvnot", a.S))
		}
	case token.ADD:
		return a
	}
	t.note("unary operator %s on %v: abstracted", op, a.T)
	return unknown(a.T)
}

// convert implements Go numeric conversions T(x).
func (t *FnTrans) convert(a Val, to types.Type) Val {
	if a.K == VConst {
		if a.C == nil {
			return t.zeroVal(to)
		}
		// constant conversion: representable by Go's rules, or float->int truncation is illegal for constants
		if _, _, ok := intInfo(to); ok {
			if a.C.Kind() == constant.Float {
				f := constant.ToInt(a.C)
				if f.Kind() == constant.Int {
					return t.constVal(f, to)
				}
			}
			return t.constVal(a.C, to)
		}
		return t.constVal(a.C, to)
	}
	if a.K == VUnknown {
		return unknown(to)
	}
	from := a.T
	if from == nil {
		return unknown(to)
	}
	fw, fs, fromInt := intInfo(from)
	tw, ts, toInt := intInfo(to)
	ffw, fromFloat := isFloat(from)
	tfw, toFloat := isFloat(to)
	if a.K != VScalar {
		// same-representation conversions of composites (named slice types...)
		if types.Identical(from.Underlying(), to.Underlying()) {
			r := a
			r.T = to
			return r
		}
		return unknown(to)
	}
	switch {
	case fromInt && toInt:
		if t.mode.isInt() {
			if tw > fw && fs == ts || (!fs && ts && tw > fw) || (fw == tw && fs == ts) {
				return scalar(to, a.S)
			}
			return scalar(to, wrapInt(a.S, tw, ts))
		}
		switch {
		case tw == fw:
			return scalar(to, a.S)
		case tw < fw:
			return scalar(to, sx(fmt.Sprintf("(_ extract %d 0)", tw-1), a.S))
		default:
			if fs {
				return scalar(to, sx(fmt.Sprintf("(_ sign_extend %d)", tw-fw), a.S))
			}
			return scalar(to, sx(fmt.Sprintf("(_ zero_extend %d)", tw-fw), a.S))
		}
	case fromInt && toFloat:
		fpS := "11 53"
		if tfw == 32 {
			fpS = "8 24"
		}
		if t.mode.isReal() {
			return scalar(to, sx("to_real", a.S))
		}
		if t.mode.isInt() {
			return scalar(to, sx("(_ to_fp "+fpS+")", "RNE", sx("to_real", a.S)))
		}
		if fs {
			return scalar(to, sx("(_ to_fp "+fpS+")", "RNE", a.S))
		}
		return scalar(to, sx("(_ to_fp_unsigned "+fpS+")", "RNE", a.S))
	case fromFloat && toInt:
		if t.mode.isReal() {
			// truncation toward zero, then wrapped into the target type
			tr := ite(sx(">=", a.S, "0.0"), sx("to_int", a.S), sx("-", sx("to_int", sx("-", a.S))))
			return scalar(to, wrapInt(tr, tw, ts))
		}
		if t.mode.isInt() {
			t.note("float to int conversion in int mode: abstracted")
			return unknown(to)
		}
		// Go: result is implementation-specific when out of range; SMT leaves
		// it unspecified as well, which over-approximates.
		if ts {
			return scalar(to, sx(fmt.Sprintf("(_ fp.to_sbv %d)", tw), "RTZ", a.S))
		}
		return scalar(to, sx(fmt.Sprintf("(_ fp.to_ubv %d)", tw), "RTZ", a.S))
	case fromFloat && toFloat:
		if ffw == tfw || t.mode.isReal() {
			return scalar(to, a.S)
		}
		fpS := "11 53"
		if tfw == 32 {
			fpS = "8 24"
		}
		return scalar(to, sx("(_ to_fp "+fpS+")", "RNE", a.S))
	}
	if t.mode.scalarSort(from) != "" && t.mode.scalarSort(from) == t.mode.scalarSort(to) && !isString(from) {
		return scalar(to, a.S)
	}
	if isString(from) && isString(to) {
		return scalar(to, a.S)
	}
	return unknown(to)
}

// toIdx converts an integer value to the index sort (Go int).
func (t *FnTrans) toIdx(a Val) (string, bool) {
	a = t.materialize(a, types.Typ[types.Int])
	if a.K != VScalar {
		return "", false
	}
	if a.T == nil {
		return a.S, true
	}
	v := t.convert(a, types.Typ[types.Int])
	if v.K != VScalar {
		return "", false
	}
	return v.S, true
}
