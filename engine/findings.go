package main

import (
	"encoding/json"
	"os"
	"path/filepath"
)

type Finding struct {
	Property   string `json:"property"`
	Obligation string `json:"obligation"`
	What       string `json:"what"`
	Status     string `json:"status"` // open | fixed
	Commit     string `json:"commit,omitempty"`
	Input      string `json:"input,omitempty"`
	Class      string `json:"class,omitempty"` // contract expression over the function's parameters: the recorded failing input class
}

type KnownFindings struct {
	Findings []Finding `json:"findings"`
}

func loadKnownFindings(verif string) *KnownFindings {
	kf := &KnownFindings{}
	data, err := os.ReadFile(filepath.Join(verif, "known_findings.json"))
	if err != nil {
		return kf
	}
	_ = json.Unmarshal(data, kf)
	return kf
}

func (k *KnownFindings) match(prop, obl string) *Finding {
	for i := range k.Findings {
		f := &k.Findings[i]
		if f.Status == "open" && f.Property == prop && f.Obligation == obl {
			return f
		}
	}
	return nil
}
