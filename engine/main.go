package main

import (
	"flag"
	"fmt"
	"os"
	"runtime"
	"strconv"
	"time"
)

func main() {
	if len(os.Args) < 2 {
		fmt.Fprintln(os.Stderr, "usage: govc check|replay|selftest ...")
		os.Exit(2)
	}
	switch os.Args[1] {
	case "check":
		fs := flag.NewFlagSet("check", flag.ExitOnError)
		prop := fs.String("p", "", "property id")
		tier := fs.String("tier", "quick", "quick|thorough")
		repo := fs.String("repo", "/repo", "repository root")
		verif := fs.String("verif", "/verif", "verif root")
		timeout := fs.Duration("timeout", 0, "per-query timeout")
		jobs := fs.Int("j", 0, "parallel obligations")
		only := fs.String("only", "", "restrict to functions containing this text")
		dump := fs.String("dump", "", "dump queries to this directory")
		noReplay := fs.Bool("noreplay", false, "do not replay counterexamples")
		noEvidence := fs.Bool("noevidence", false, "do not write the evidence file (selftest runs)")
		fs.Parse(os.Args[2:])
		if t := os.Getenv("VERIF_TIER"); t != "" && *tier == "" {
			*tier = t
		}
		o := CheckOpts{Prop: *prop, Tier: *tier, Repo: *repo, Verif: *verif, Timeout: *timeout, Jobs: *jobs, Only: *only, Dump: *dump, NoReplay: *noReplay, NoEvidence: *noEvidence}
		if s := os.Getenv("VERIF_SEED"); s != "" {
			o.Seed, _ = strconv.ParseInt(s, 10, 64)
		}
		if o.Timeout == 0 {
			if o.Tier == "thorough" {
				o.Timeout = 120 * time.Second
			} else {
				o.Timeout = 60 * time.Second
			}
		}
		if o.Jobs == 0 {
			o.Jobs = runtime.NumCPU() / 2
			if o.Tier == "thorough" {
				o.Jobs = runtime.NumCPU() / 3
			}
			if o.Jobs < 1 {
				o.Jobs = 1
			}
		}
		os.Exit(runCheck(o))
	case "replay":
		os.Exit(runReplayCmd(os.Args[2:]))
	default:
		fmt.Fprintln(os.Stderr, "unknown command", os.Args[1])
		os.Exit(2)
	}
}
