package main

import (
	"fmt"
	"math"
	"math/big"
	"strings"
)

type SExpr struct {
	Atom   string
	List   []*SExpr
	IsList bool
}

func (s *SExpr) String() string {
	if !s.IsList {
		return s.Atom
	}
	var parts []string
	for _, c := range s.List {
		parts = append(parts, c.String())
	}
	return "(" + strings.Join(parts, " ") + ")"
}

func parseSExprs(src string) ([]*SExpr, error) {
	var res []*SExpr
	pos := 0
	for {
		skipWS(src, &pos)
		if pos >= len(src) {
			return res, nil
		}
		e, err := parseSExpr(src, &pos)
		if err != nil {
			return res, err
		}
		res = append(res, e)
	}
}

func skipWS(s string, pos *int) {
	for *pos < len(s) {
		c := s[*pos]
		if c == ' ' || c == '\n' || c == '\t' || c == '\r' {
			*pos++
		} else if c == ';' {
			for *pos < len(s) && s[*pos] != '\n' {
				*pos++
			}
		} else {
			return
		}
	}
}

func parseSExpr(s string, pos *int) (*SExpr, error) {
	skipWS(s, pos)
	if *pos >= len(s) {
		return nil, fmt.Errorf("unexpected end")
	}
	if s[*pos] == '(' {
		*pos++
		e := &SExpr{IsList: true}
		for {
			skipWS(s, pos)
			if *pos >= len(s) {
				return nil, fmt.Errorf("unbalanced")
			}
			if s[*pos] == ')' {
				*pos++
				return e, nil
			}
			c, err := parseSExpr(s, pos)
			if err != nil {
				return nil, err
			}
			e.List = append(e.List, c)
		}
	}
	start := *pos
	if s[*pos] == '|' {
		*pos++
		for *pos < len(s) && s[*pos] != '|' {
			*pos++
		}
		*pos++
		return &SExpr{Atom: s[start:*pos]}, nil
	}
	if s[*pos] == '"' {
		*pos++
		for *pos < len(s) && s[*pos] != '"' {
			*pos++
		}
		*pos++
		return &SExpr{Atom: s[start:*pos]}, nil
	}
	for *pos < len(s) {
		c := s[*pos]
		if c == ' ' || c == '\n' || c == '\t' || c == '\r' || c == '(' || c == ')' {
			break
		}
		*pos++
	}
	return &SExpr{Atom: s[start:*pos]}, nil
}

// ModelVal is a decoded SMT value.
type ModelVal struct {
	Kind  string // int bv bool fp other
	Int   *big.Int
	Width int
	Bool  bool
	F64   float64
	F32   bool
	Raw   string
}

func decodeValue(e *SExpr) ModelVal {
	raw := e.String()
	if !e.IsList {
		a := e.Atom
		switch {
		case a == "true":
			return ModelVal{Kind: "bool", Bool: true, Raw: raw}
		case a == "false":
			return ModelVal{Kind: "bool", Bool: false, Raw: raw}
		case strings.HasPrefix(a, "#x"):
			n, _ := new(big.Int).SetString(a[2:], 16)
			return ModelVal{Kind: "bv", Int: n, Width: 4 * (len(a) - 2), Raw: raw}
		case strings.HasPrefix(a, "#b"):
			n, _ := new(big.Int).SetString(a[2:], 2)
			return ModelVal{Kind: "bv", Int: n, Width: len(a) - 2, Raw: raw}
		}
		if n, ok := new(big.Int).SetString(a, 10); ok {
			return ModelVal{Kind: "int", Int: n, Raw: raw}
		}
		return ModelVal{Kind: "other", Raw: raw}
	}
	l := e.List
	if len(l) == 2 && !l[0].IsList && l[0].Atom == "-" {
		v := decodeValue(l[1])
		if v.Kind == "int" {
			return ModelVal{Kind: "int", Int: new(big.Int).Neg(v.Int), Raw: raw}
		}
	}
	if len(l) == 3 && !l[0].IsList && l[0].Atom == "_" && strings.HasPrefix(l[1].Atom, "bv") {
		n, _ := new(big.Int).SetString(l[1].Atom[2:], 10)
		var w int
		fmt.Sscan(l[2].Atom, &w)
		return ModelVal{Kind: "bv", Int: n, Width: w, Raw: raw}
	}
	if len(l) == 4 && !l[0].IsList && l[0].Atom == "fp" {
		s, ex, m := decodeValue(l[1]), decodeValue(l[2]), decodeValue(l[3])
		if s.Kind == "bv" && ex.Kind == "bv" && m.Kind == "bv" {
			if ex.Width == 11 {
				bits := s.Int.Uint64()<<63 | ex.Int.Uint64()<<52 | m.Int.Uint64()
				return ModelVal{Kind: "fp", F64: math.Float64frombits(bits), Raw: raw}
			}
			if ex.Width == 8 {
				bits := uint32(s.Int.Uint64())<<31 | uint32(ex.Int.Uint64())<<23 | uint32(m.Int.Uint64())
				return ModelVal{Kind: "fp", F64: float64(math.Float32frombits(bits)), F32: true, Raw: raw}
			}
		}
	}
	if len(l) == 4 && !l[0].IsList && l[0].Atom == "_" {
		switch l[1].Atom {
		case "+zero":
			return ModelVal{Kind: "fp", F64: 0, Raw: raw}
		case "-zero":
			return ModelVal{Kind: "fp", F64: math.Copysign(0, -1), Raw: raw}
		case "+oo":
			return ModelVal{Kind: "fp", F64: math.Inf(1), Raw: raw}
		case "-oo":
			return ModelVal{Kind: "fp", F64: math.Inf(-1), Raw: raw}
		case "NaN":
			return ModelVal{Kind: "fp", F64: math.NaN(), Raw: raw}
		}
	}
	return ModelVal{Kind: "other", Raw: raw}
}

// parseGetValue parses the "(get-value ...)" answer that follows "sat".
func parseGetValue(out string) ([]ModelVal, error) {
	i := strings.Index(out, "\n")
	if i < 0 {
		return nil, fmt.Errorf("no get-value output")
	}
	es, err := parseSExprs(out[i+1:])
	if err != nil || len(es) == 0 {
		return nil, fmt.Errorf("cannot parse get-value output: %v", err)
	}
	var res []ModelVal
	for _, e := range es {
		if !e.IsList {
			continue
		}
		for _, p := range e.List {
			if p.IsList && len(p.List) == 2 {
				res = append(res, decodeValue(p.List[1]))
			}
		}
	}
	return res, nil
}
