package main

import (
	"fmt"
	"go/constant"
	"go/types"
	"golang.org/x/tools/go/ssa"
	"regexp"
	"sort"
	"strings"
)

type VK int

const (
	VScalar  VK = iota // S holds a term of scalarSort(T)
	VConst             // Go constant (possibly untyped); C holds it
	VSlice             // Sub = base(Ref) off len cap
	VStruct            // Sub = field values
	VTuple             // Sub = elements
	VArray             // S = SMT array term (value of a Go array)
	VAddr              // pointer to a non-struct location (field / element)
	VUnknown           // abstraction: havocked on use
	VFunc              // function constant
	VNone              // no value
)

type Loc struct {
	Kind  int    // 0 cell, 1 field, 2 elem
	Comp  string // heap component base name
	Ref   string // object reference / array base
	Idx   string // element index (Kind 2)
	T     types.Type
	Owner string // owner struct type key (fields)
	Field string
}

const (
	LCell = iota
	LField
	LElem
)

type Val struct {
	K   VK
	T   types.Type
	S   string
	C   constant.Value
	Sub []Val
	L   *Loc
	Fn  interface{}
	// a function value that is one of several function constants, each under
	// its own condition (phi over non-capturing closures / package functions)
	Alts []FnAlt
}

type FnAlt struct {
	Cond string
	Fn   *ssa.Function
}

func scalar(t types.Type, s string) Val { return Val{K: VScalar, T: t, S: s} }
func unknown(t types.Type) Val          { return Val{K: VUnknown, T: t} }

func (v Val) String() string {
	switch v.K {
	case VScalar, VArray:
		return v.S
	case VConst:
		return "const:" + v.C.String()
	case VSlice:
		return fmt.Sprintf("slice{%s,%s,%s,%s}", v.Sub[0].S, v.Sub[1].S, v.Sub[2].S, v.Sub[3].S)
	case VUnknown:
		return "unknown"
	}
	return fmt.Sprintf("val(kind %d)", v.K)
}

// typeKey gives a stable readable key for a Go type, used in heap names.
// predeclared aliases: byte and uint8 (rune and int32) are identical types and
// must share heap components, type tags and unbox functions
var aliasByte = regexp.MustCompile(`(^|[^A-Za-z0-9_.])byte($|[^A-Za-z0-9_])`)
var aliasRune = regexp.MustCompile(`(^|[^A-Za-z0-9_.])rune($|[^A-Za-z0-9_])`)

func typeKey(t types.Type) string {
	s := types.TypeString(t, func(p *types.Package) string { return p.Name() })
	for aliasByte.MatchString(s) {
		s = aliasByte.ReplaceAllString(s, "${1}uint8${2}")
	}
	for aliasRune.MatchString(s) {
		s = aliasRune.ReplaceAllString(s, "${1}int32${2}")
	}
	return sanitize(s)
}

// HeapState: versions of heap components along one control-flow path.
// Components are created lazily; a component that was never written on the
// path resolves through `base`.
type HeapState struct {
	cur           map[string]string
	epoch         int            // valid if merge == nil
	merge         []mergeInput   // lazily merged predecessors
	pending       map[string]int // component -> private epoch (havocked, sort not yet known)
	pendingPrefix map[string]int // component-name prefix -> private epoch
}

type mergeInput struct {
	cond string
	st   *HeapState
}

func (h *HeapState) clone() *HeapState {
	n := &HeapState{cur: map[string]string{}, epoch: h.epoch, merge: h.merge, pending: map[string]int{}, pendingPrefix: map[string]int{}}
	for k, v := range h.cur {
		n.cur[k] = v
	}
	for k, v := range h.pending {
		n.pending[k] = v
	}
	for k, v := range h.pendingPrefix {
		n.pendingPrefix[k] = v
	}
	return n
}

func (h *HeapState) keys() []string {
	var ks []string
	for k := range h.cur {
		ks = append(ks, k)
	}
	sort.Strings(ks)
	return ks
}

func compSortSuffix(s string) string {
	return strings.NewReplacer("(", "", ")", "", " ", "_").Replace(s)
}
