package main

// Replay: turn a solver model into a Go test that runs the real function.

import (
	"bytes"
	"context"
	"encoding/json"
	"fmt"
	"go/ast"
	"go/types"
	"math"
	"math/big"
	"os"
	"os/exec"
	"path/filepath"
	"strconv"
	"strings"

	"golang.org/x/tools/go/ssa"
	"time"
)

type planNode struct {
	kind      string // scalar ptr slice struct nil unsupported array
	ty        types.Type
	term      int // index into terms (scalar / ptr ref)
	comps     [4]int
	children  []*planNode
	names     []string
	elemTerms []int       // slice contents (round 2)
	elemPlans []*planNode // slice contents of composite element type (round 2)
	sliceVal  Val
	arrTerm   string
	arrLen    int
}

type replayGen struct {
	t       *FnTrans
	w       *World
	terms   []string
	imports map[string]string // alias -> path
	notes   []string
	hoists  []string
	specs   map[string]bool
	specSrc []string
	depth   int
}

func (g *replayGen) addTerm(s string) int {
	g.terms = append(g.terms, s)
	return len(g.terms) - 1
}

func (g *replayGen) plan(v Val, ty types.Type, st *HeapState, depth int) *planNode {
	t := g.t
	n := &planNode{ty: ty}
	if depth > 4 {
		n.kind = "zero"
		return n
	}
	switch u := ty.Underlying().(type) {
	case *types.Basic:
		if v.K == VScalar {
			n.kind = "scalar"
			n.term = g.addTerm(v.S)
			if isString(ty) {
				n.comps[0] = g.addTerm(sx(t.strLen(), v.S))
			}
			return n
		}
	case *types.Pointer:
		if v.K == VScalar {
			n.kind = "ptr"
			n.term = g.addTerm(v.S)
			el := u.Elem()
			switch eu := el.Underlying().(type) {
			case *types.Struct:
				sv := t.loadStruct(st, el, v.S, "true")
				n.children = []*planNode{g.plan(sv, el, st, depth+1)}
			case *types.Array:
				_ = eu
				av := t.load(st, t.cellLoc(el, v.S), "true")
				n.children = []*planNode{g.plan(av, el, st, depth+1)}
			default:
				cv := t.load(st, t.cellLoc(el, v.S), "true")
				n.children = []*planNode{g.plan(cv, el, st, depth+1)}
			}
			return n
		}
	case *types.Slice:
		if v.K == VSlice {
			n.kind = "slice"
			for i := 0; i < 4; i++ {
				n.comps[i] = g.addTerm(v.Sub[i].S)
			}
			n.sliceVal = v
			return n
		}
	case *types.Struct:
		if v.K == VStruct {
			n.kind = "struct"
			for i := 0; i < u.NumFields(); i++ {
				n.children = append(n.children, g.plan(v.Sub[i], u.Field(i).Type(), st, depth+1))
				n.names = append(n.names, u.Field(i).Name())
			}
			return n
		}
	case *types.Array:
		if v.K == VArray && u.Len() <= 64 {
			n.kind = "array"
			n.arrLen = int(u.Len())
			for i := 0; i < n.arrLen; i++ {
				n.elemTerms = append(n.elemTerms, g.addTerm(sx("select", v.S, t.mode.intLit64(int64(i), 64))))
			}
			return n
		}
	case *types.Interface:
		n.kind = "zero"
		g.notes = append(g.notes, "interface-typed input replaced by nil")
		return n
	}
	n.kind = "zero"
	g.notes = append(g.notes, fmt.Sprintf("input of type %s replaced by its zero value", ty))
	return n
}

func (g *replayGen) typeStr(ty types.Type) string {
	return types.TypeString(ty, func(p *types.Package) string {
		if p == g.t.pkg {
			return ""
		}
		g.imports[p.Name()] = p.Path()
		return p.Name()
	})
}

func goInt(v ModelVal, ty types.Type) string {
	w, signed, ok := intInfo(ty)
	if !ok || v.Int == nil {
		return "0"
	}
	n := new(big.Int).Set(v.Int)
	if v.Kind == "bv" && signed && n.Bit(w-1) == 1 {
		n.Sub(n, pow2(w))
	}
	return n.String()
}

func goFloat(f float64) string {
	switch {
	case math.IsNaN(f):
		return "math.NaN()"
	case math.IsInf(f, 1):
		return "math.Inf(1)"
	case math.IsInf(f, -1):
		return "math.Inf(-1)"
	}
	return fmt.Sprintf("math.Float64frombits(0x%x)", math.Float64bits(f))
}

func (g *replayGen) render(n *planNode, vals []ModelVal, strs map[string]string) string {
	ty := n.ty
	switch n.kind {
	case "scalar":
		v := vals[n.term]
		if _, _, ok := intInfo(ty); ok {
			return fmt.Sprintf("%s(%s)", g.typeStr(ty), goInt(v, ty))
		}
		if _, ok := isFloat(ty); ok {
			g.imports["math"] = "math"
			return fmt.Sprintf("%s(%s)", g.typeStr(ty), goFloat(v.F64))
		}
		if isBool(ty) {
			return fmt.Sprintf("%s(%v)", g.typeStr(ty), v.Bool)
		}
		if isString(ty) {
			ln := 0
			if lv := vals[n.comps[0]]; lv.Int != nil && lv.Int.IsInt64() && lv.Int.Int64() >= 0 && lv.Int.Int64() < 1<<16 {
				ln = int(lv.Int.Int64())
			}
			s, ok := strs[v.Raw]
			if !ok {
				// distinct strings for distinct model values, of the model's length
				tag := fmt.Sprintf("%d", len(strs))
				s = tag
				for len(s) < ln {
					s += "x"
				}
				if len(s) > ln {
					s = s[:ln]
				}
				strs[v.Raw] = s
			}
			return fmt.Sprintf("%s(%q)", g.typeStr(ty), s)
		}
	case "ptr":
		v := vals[n.term]
		if v.Int != nil && v.Int.Sign() == 0 {
			return "nil"
		}
		el := ty.Underlying().(*types.Pointer).Elem()
		inner := g.render(n.children[0], vals, strs)
		switch el.Underlying().(type) {
		case *types.Struct, *types.Array:
			return "&" + inner
		}
		return fmt.Sprintf("func() *%s { v := %s; return &v }()", g.typeStr(el), inner)
	case "slice":
		base := vals[n.comps[0]]
		if base.Int != nil && base.Int.Sign() == 0 {
			return "nil"
		}
		ln := vals[n.comps[2]]
		el := ty.Underlying().(*types.Slice).Elem()
		if ln.Int == nil {
			return "nil"
		}
		l := signedOf(ln)
		if l < 0 || l > 1<<16 {
			g.notes = append(g.notes, "slice length in model out of replayable range")
			return "nil"
		}
		var elems []string
		for _, et := range n.elemTerms {
			ev := vals[et]
			if _, _, ok := intInfo(el); ok {
				elems = append(elems, goInt(ev, el))
			} else if _, ok := isFloat(el); ok {
				g.imports["math"] = "math"
				elems = append(elems, goFloat(ev.F64))
			} else if isBool(el) {
				elems = append(elems, fmt.Sprint(ev.Bool))
			} else {
				elems = append(elems, "")
			}
		}
		if len(n.elemPlans) == int(l) && l > 0 {
			elems = elems[:0]
			for _, ep := range n.elemPlans {
				elems = append(elems, g.render(ep, vals, strs))
			}
		}
		if len(elems) != int(l) {
			return fmt.Sprintf("make(%s, %d)", g.typeStr(ty), l)
		}
		return fmt.Sprintf("%s{%s}", g.typeStr(ty), strings.Join(elems, ", "))
	case "struct":
		var fs []string
		st := ty.Underlying().(*types.Struct)
		for i, c := range n.children {
			f := st.Field(i)
			if !f.Exported() && f.Pkg() != g.t.pkg {
				continue
			}
			if c.kind == "zero" {
				continue
			}
			fs = append(fs, fmt.Sprintf("%s: %s", f.Name(), g.render(c, vals, strs)))
		}
		return fmt.Sprintf("%s{%s}", g.typeStr(ty), strings.Join(fs, ", "))
	case "array":
		at := ty.Underlying().(*types.Array)
		var elems []string
		for _, et := range n.elemTerms {
			elems = append(elems, goInt(vals[et], at.Elem()))
		}
		return fmt.Sprintf("%s{%s}", g.typeStr(ty), strings.Join(elems, ", "))
	}
	return fmt.Sprintf("*new(%s)", g.typeStr(ty))
}

func signedOf(v ModelVal) int64 {
	if v.Int == nil {
		return 0
	}
	n := new(big.Int).Set(v.Int)
	if v.Kind == "bv" && v.Width > 0 && n.Bit(v.Width-1) == 1 {
		n.Sub(n, pow2(v.Width))
	}
	if !n.IsInt64() {
		return -1
	}
	return n.Int64()
}

// collectSlices walks the plan to add content terms (round 2).
func (g *replayGen) addContents(n *planNode, vals []ModelVal, st *HeapState) {
	t := g.t
	if n.kind == "slice" {
		l := signedOf(vals[n.comps[2]])
		base := vals[n.comps[0]]
		el := n.ty.Underlying().(*types.Slice).Elem()
		_, elIsPtr := el.Underlying().(*types.Pointer)
		if l > 0 && l <= 4096 && base.Int != nil && base.Int.Sign() != 0 && t.mode.scalarSort(el) != "" && !isString(el) && !elIsPtr {
			for i := int64(0); i < l; i++ {
				loc := t.elemLoc(el, n.sliceVal.Sub[0].S, t.addIdx(n.sliceVal.Sub[1].S, t.mode.intLit64(i, 64)))
				n.elemTerms = append(n.elemTerms, g.addTerm(t.selectComp(st, loc, compDesc{"", t.mode.scalarSort(el)})))
			}
		} else if l > 0 && l <= 16 && base.Int != nil && base.Int.Sign() != 0 && g.depth < 2 {
			// pointers, strings, structs: one sub-plan per element (their own
			// slices are not expanded further)
			switch el.Underlying().(type) {
			case *types.Pointer, *types.Basic, *types.Struct:
				g.depth++
				for i := int64(0); i < l; i++ {
					loc := t.elemLoc(el, n.sliceVal.Sub[0].S, t.addIdx(n.sliceVal.Sub[1].S, t.mode.intLit64(i, 64)))
					ev := t.load(st, loc, "true")
					n.elemPlans = append(n.elemPlans, g.plan(ev, el, st, 1))
				}
				g.depth--
			}
		}
		return
	}
	for _, c := range n.children {
		g.addContents(c, vals, st)
	}
}

func solverByName(name string) Solver {
	for _, s := range solvers {
		if s.Name == name {
			return s
		}
	}
	return solvers[0]
}

// fsMutators: functions that create, change or remove files.  A function under
// contract that reaches one of them (through static calls, up to three levels
// inside the module) is never EXECUTED with solver-chosen inputs: a replay runs
// in the package directory of the working tree, and a model string used as a
// path would create or delete files there.
var fsMutators = map[string]bool{
	"os.Remove": true, "os.RemoveAll": true, "os.Rename": true, "os.WriteFile": true, "os.Create": true,
	"os.Mkdir": true, "os.MkdirAll": true, "os.OpenFile": true, "os.Truncate": true, "os.Chmod": true,
	"os.Symlink": true, "os.Link": true, "io/ioutil.WriteFile": true, "os.CreateTemp": true, "os.MkdirTemp": true,
}

func reachesFsMutator(fn *ssa.Function, depth int, seen map[*ssa.Function]bool) string {
	if fn == nil || seen[fn] || depth < 0 {
		return ""
	}
	seen[fn] = true
	for _, b := range fn.Blocks {
		for _, in := range b.Instrs {
			var cc *ssa.CallCommon
			switch x := in.(type) {
			case *ssa.Call:
				cc = x.Common()
			case *ssa.Defer:
				cc = x.Common()
			case *ssa.Go:
				cc = x.Common()
			}
			if cc == nil {
				continue
			}
			callee := cc.StaticCallee()
			if callee == nil {
				continue
			}
			name := calleeName(callee)
			if fsMutators[name] {
				return name
			}
			if callee.Pkg != nil && strings.HasPrefix(callee.Pkg.Pkg.Path(), modulePath) {
				if r := reachesFsMutator(callee, depth-1, seen); r != "" {
					return r
				}
			}
		}
	}
	for _, a := range fn.AnonFuncs {
		if r := reachesFsMutator(a, depth, seen); r != "" {
			return r
		}
	}
	return ""
}

func buildReplay(o CheckOpts, w *World, r *OblReport, rf *ReplayFile) {
	t := r.ft
	fn := t.fn
	if m := reachesFsMutator(fn, 3, map[*ssa.Function]bool{}); m != "" {
		rf.Note = "replay not executed: the function under contract reaches " + m + " (a file-system mutation); running it on solver-chosen inputs could create or delete files of the working tree"
		return
	}
	g := &replayGen{t: t, w: w, imports: map[string]string{"testing": "testing", "fmt": "fmt"}, specs: map[string]bool{}}
	defer func() {
		if p := recover(); p != nil {
			rf.Note = fmt.Sprintf("replay generation failed: %v", p)
		}
	}()
	// plan inputs
	var plans []*planNode
	for _, p := range fn.Params {
		plans = append(plans, g.plan(t.vals[p], p.Type(), t.entry0, 0))
	}
	nDeclsBefore := len(t.decls)
	_ = nDeclsBefore
	dir, err := os.MkdirTemp("", "govc-replay-")
	if err != nil {
		rf.Note = err.Error()
		return
	}
	defer os.RemoveAll(dir)
	solver := solverByName(r.Backend)
	ask := func(extra string) ([]ModelVal, string, bool) {
		saved := r.obl.ExtraAssume
		if extra != "" {
			if saved != "" {
				r.obl.ExtraAssume = and(saved, extra)
			} else {
				r.obl.ExtraAssume = extra
			}
		}
		q := t.Query(r.obl, g.terms)
		r.obl.ExtraAssume = saved
		file := filepath.Join(dir, "model.smt2")
		os.WriteFile(file, []byte(q), 0o644)
		ctx, cancel := context.WithTimeout(context.Background(), 60*time.Second)
		defer cancel()
		res, out := runSolver(ctx, solver, file)
		if res != "sat" {
			return nil, out, false
		}
		vals, err := parseGetValue(out)
		if err != nil || len(vals) != len(g.terms) {
			return nil, out, false
		}
		return vals, out, true
	}
	// prefer small inputs: bound every slice length first, relax when unsatisfiable
	var lenTerms []string
	var collect func(n *planNode)
	collect = func(n *planNode) {
		if n.kind == "slice" {
			lenTerms = append(lenTerms, g.terms[n.comps[2]])
		}
		for _, c := range n.children {
			collect(c)
		}
	}
	for _, p := range plans {
		collect(p)
	}
	var vals []ModelVal
	var out string
	ok := false
	sizeBound := ""
	if len(lenTerms) > 0 {
		for _, bound := range []int64{1, 2, 4, 8, 16, 64, 1024} {
			var cs []string
			for _, lt := range lenTerms {
				cs = append(cs, t.cmpIdx("<=", lt, t.mode.intLit64(bound, 64)))
			}
			sizeBound = and(cs...)
			vals, out, ok = ask(sizeBound)
			if ok {
				break
			}
			sizeBound = ""
		}
	}
	if !ok {
		vals, out, ok = ask("")
	}
	if !ok {
		rf.Note = "could not obtain model values: " + firstLines(out, 5)
		return
	}
	// round 2: pin round-1 values, add slice contents
	n1 := len(g.terms)
	for _, p := range plans {
		g.addContents(p, vals, t.entry0)
	}
	if len(g.terms) > n1 {
		var pins []string
		for i := 0; i < n1; i++ {
			switch vals[i].Kind {
			case "int", "bv", "bool":
				pins = append(pins, eq(g.terms[i], vals[i].Raw))
			}
		}
		v2, out2, ok2 := ask(and(append(pins, sizeBound)...))
		if !ok2 {
			rf.Note = "could not obtain slice contents from the model: " + firstLines(out2, 5)
			return
		}
		vals = v2
	}
	rf.Model = map[string]string{}
	strs := map[string]string{}
	var decls []string
	var argNames []string
	for i, p := range fn.Params {
		name := p.Name()
		if name == "" || name == "_" {
			name = fmt.Sprintf("arg%d", i)
		}
		if name == "tt" {
			name = "tt_"
		}
		val := g.render(plans[i], vals, strs)
		rf.Model[name] = val
		decls = append(decls, fmt.Sprintf("\tvar %s %s = %s\n\t_ = %s", name, g.typeStr(p.Type()), val, name))
		argNames = append(argNames, name)
	}
	// call expression
	sig := fn.Signature
	var call string
	nres := sig.Results().Len()
	var resNames []string
	for i := 0; i < nres; i++ {
		resNames = append(resNames, fmt.Sprintf("res%d", i))
	}
	if sig.Recv() != nil {
		recvName := argNames[0]
		call = fmt.Sprintf("%s.%s(%s)", recvName, fn.Name(), joinArgs(argNames[1:], sig))
	} else {
		call = fmt.Sprintf("%s(%s)", fn.Name(), joinArgs(argNames, sig))
	}
	if strings.Contains(fn.Name(), "$") {
		rf.Note = "closure: cannot be called from a test"
		return
	}
	var resDecl string
	for i := 0; i < nres; i++ {
		resDecl += fmt.Sprintf("\tvar res%d %s\n\t_ = res%d\n", i, g.typeStr(sig.Results().At(i).Type()), i)
	}
	assign := call
	if nres > 0 {
		assign = strings.Join(resNames, ", ") + " = " + call
	}
	// the check
	isSafety := false
	switch r.Kind {
	case "bounds", "slice", "nil", "div0", "typeassert", "makelen", "panic", "shift", "nilmap":
		isSafety = true
	}
	clauseGo := ""
	if r.Kind == "ensures" && r.obl.F.Clause != nil {
		func() {
			defer func() {
				if p := recover(); p != nil {
					g.notes = append(g.notes, fmt.Sprintf("clause not executable in Go: %v", p))
					clauseGo = ""
				}
			}()
			clauseGo = g.goExpr(r.obl.F.Clause.Expr, fn.Pkg.Pkg, resultNames(sig))
		}()
	}
	var b bytes.Buffer
	testName := "TestGovcReplay"
	fmt.Fprintf(&b, "package %s\n\n", t.pkg.Name())
	var body bytes.Buffer
	fmt.Fprintf(&body, "func %s(tt *testing.T) {\n", testName)
	for _, d := range decls {
		body.WriteString(d + "\n")
	}
	body.WriteString(resDecl)
	for _, h := range g.hoists {
		body.WriteString("\t" + h + "\n")
	}
	body.WriteString("\tvar panicVal interface{}\n\tfunc() {\n\t\tdefer func() { panicVal = recover() }()\n\t\t" + assign + "\n\t}()\n")
	fmt.Fprintf(&body, "\tfmt.Printf(\"GOVC-REPLAY: obligation %%s\\n\", %q)\n", r.Name)
	if nres > 0 {
		fmt.Fprintf(&body, "\tfmt.Printf(\"GOVC-REPLAY: results %s\\n\", %s)\n", strings.Repeat("%#v ", nres), strings.Join(resNames, ", "))
	}
	if isSafety {
		body.WriteString("\tif panicVal != nil {\n\t\tfmt.Printf(\"GOVC-REPLAY: VIOLATED (panic) %v\\n\", panicVal)\n\t\ttt.Fatalf(\"panic: %v\", panicVal)\n\t}\n")
	} else {
		body.WriteString("\tif panicVal != nil {\n\t\tfmt.Printf(\"GOVC-REPLAY: PANIC (other obligation) %v\\n\", panicVal)\n\t\treturn\n\t}\n")
		if clauseGo != "" {
			fmt.Fprintf(&body, "\tif !(%s) {\n\t\tfmt.Println(\"GOVC-REPLAY: VIOLATED clause\")\n\t\ttt.Fatalf(\"clause violated: %%s\", %q)\n\t}\n", clauseGo, r.Text)
		}
	}
	body.WriteString("}\n")
	// dot imports of the package under test are replicated (with a dummy use)
	var dotUses []string
	if lp := w.pkgs[fn.Pkg.Pkg.Path()]; lp != nil {
		seenDot := map[string]bool{}
		for _, f := range lp.Syntax {
			for _, im := range f.Imports {
				if im.Name == nil || im.Name.Name != "." {
					continue
				}
				path := strings.Trim(im.Path.Value, "\"")
				if seenDot[path] {
					continue
				}
				seenDot[path] = true
				dp := w.pkgs[path]
				if dp == nil || dp.Types == nil {
					continue
				}
				for _, name := range dp.Types.Scope().Names() {
					obj := dp.Types.Scope().Lookup(name)
					if !obj.Exported() {
						continue
					}
					switch obj.(type) {
					case *types.Const, *types.Var, *types.Func:
						dotUses = append(dotUses, fmt.Sprintf("var _ = %s", name))
					default:
						continue
					}
					g.imports["."+path] = path
					break
				}
			}
		}
	}
	// imports
	b.WriteString("import (\n")
	for alias, path := range g.imports {
		if strings.HasPrefix(alias, ".") {
			fmt.Fprintf(&b, "\t. %q\n", path)
			continue
		}
		if alias == filepath.Base(path) {
			fmt.Fprintf(&b, "\t%q\n", path)
		} else {
			fmt.Fprintf(&b, "\t%s %q\n", alias, path)
		}
	}
	b.WriteString(")\n\n")
	for _, d := range dotUses {
		b.WriteString(d + "\n")
	}
	b.WriteString("func govcImplies(a, b bool) bool { return !a || b }\n")
	b.WriteString("func govcIte[T any](c bool, a, b T) T { if c { return a }; return b }\n")
	b.WriteString("func govcForall(lo, hi int, f func(int) bool) bool { for i := lo; i < hi; i++ { if !f(i) { return false } }; return true }\n")
	b.WriteString("func govcExists(lo, hi int, f func(int) bool) bool { for i := lo; i < hi; i++ { if f(i) { return true } }; return false }\n\n")
	for _, s := range g.specSrc {
		b.WriteString(s + "\n")
	}
	b.Write(body.Bytes())
	rf.GoTest = b.String()
	rf.GoTestName = testName
	rf.GoTestPkg = strings.TrimPrefix(fn.Pkg.Pkg.Path(), modulePath+"/")
	if len(g.notes) > 0 {
		rf.Note = strings.Join(g.notes, "; ")
	}
	if !isSafety && clauseGo == "" {
		rf.Note += " (obligation is internal to the function; replay only observes panics)"
	}
	outTxt, failed := runGoTestW(w, o.Repo, rf.GoTestPkg, testName, rf.GoTest)
	rf.ReplayOutput = tailLines(outTxt, 30)
	rf.Reproduced = failed && strings.Contains(outTxt, "GOVC-REPLAY: VIOLATED")
}

func resultNames(sig *types.Signature) map[string]string {
	m := map[string]string{"result": "res0"}
	for i := 0; i < sig.Results().Len(); i++ {
		m[fmt.Sprintf("result%d", i)] = fmt.Sprintf("res%d", i)
		if n := sig.Results().At(i).Name(); n != "" && n != "_" {
			m[n] = fmt.Sprintf("res%d", i)
		}
	}
	return m
}

func joinArgs(names []string, sig *types.Signature) string {
	if sig.Variadic() && len(names) > 0 {
		n := append([]string{}, names...)
		n[len(n)-1] += "..."
		return strings.Join(n, ", ")
	}
	return strings.Join(names, ", ")
}

func tailLines(s string, n int) string {
	ls := strings.Split(strings.TrimSpace(s), "\n")
	var keep []string
	for _, l := range ls {
		if strings.Contains(l, "level=") {
			continue
		}
		keep = append(keep, l)
	}
	if len(keep) > n {
		keep = keep[len(keep)-n:]
	}
	return strings.Join(keep, "\n")
}

// goExpr renders a contract expression as executable Go.
func (g *replayGen) goExpr(x ast.Expr, pkg *types.Package, ren map[string]string) string {
	switch n := x.(type) {
	case *ast.ParenExpr:
		return "(" + g.goExpr(n.X, pkg, ren) + ")"
	case *ast.Ident:
		if r, ok := ren[n.Name]; ok {
			return r
		}
		if n.Name == "tt" {
			return "tt_"
		}
		return n.Name
	case *ast.BasicLit:
		return n.Value
	case *ast.UnaryExpr:
		return n.Op.String() + g.goExpr(n.X, pkg, ren)
	case *ast.BinaryExpr:
		return "(" + g.goExpr(n.X, pkg, ren) + " " + n.Op.String() + " " + g.goExpr(n.Y, pkg, ren) + ")"
	case *ast.StarExpr:
		return "*" + g.goExpr(n.X, pkg, ren)
	case *ast.SelectorExpr:
		if id, ok := n.X.(*ast.Ident); ok {
			if _, isVar := ren[id.Name]; !isVar && pkg.Scope().Lookup(id.Name) == nil {
				if p := g.w.importedPkg(pkg, id.Name); p != nil && !g.isParam(id.Name) {
					g.imports[id.Name] = p.Path()
					return id.Name + "." + n.Sel.Name
				}
			}
		}
		return g.goExpr(n.X, pkg, ren) + "." + n.Sel.Name
	case *ast.IndexExpr:
		return g.goExpr(n.X, pkg, ren) + "[" + g.goExpr(n.Index, pkg, ren) + "]"
	case *ast.SliceExpr:
		lo, hi := "", ""
		if n.Low != nil {
			lo = g.goExpr(n.Low, pkg, ren)
		}
		if n.High != nil {
			hi = g.goExpr(n.High, pkg, ren)
		}
		return g.goExpr(n.X, pkg, ren) + "[" + lo + ":" + hi + "]"
	case *ast.CallExpr:
		var args []string
		id, _ := n.Fun.(*ast.Ident)
		if id != nil {
			switch id.Name {
			case "old":
				k := len(g.hoists) + 1
				name := fmt.Sprintf("old%d", k)
				g.hoists = append(g.hoists, fmt.Sprintf("%s := %s; _ = %s", name, g.goExpr(n.Args[0], pkg, ren), name))
				return name
			case "forall", "exists":
				v := n.Args[0].(*ast.Ident).Name
				fnn := "govcForall"
				if id.Name == "exists" {
					fnn = "govcExists"
				}
				return fmt.Sprintf("%s(int(%s), int(%s), func(%s int) bool { return %s })", fnn, g.goExpr(n.Args[1], pkg, ren), g.goExpr(n.Args[2], pkg, ren), v, g.goExpr(n.Args[3], pkg, ren))
			case "ghost", "uf", "samebase":
				panic("ghost/uninterpreted term")
			}
		}
		for _, a := range n.Args {
			args = append(args, g.goExpr(a, pkg, ren))
		}
		if id != nil {
			switch id.Name {
			case "implies":
				return "govcImplies(" + strings.Join(args, ", ") + ")"
			case "iff":
				return "((" + args[0] + ") == (" + args[1] + "))"
			case "ite":
				return "govcIte(" + strings.Join(args, ", ") + ")"
			case "isNaN":
				g.imports["math"] = "math"
				return "math.IsNaN(" + args[0] + ")"
			case "isInf":
				g.imports["math"] = "math"
				return "math.IsInf(" + args[0] + ", 0)"
			case "fabs":
				g.imports["math"] = "math"
				return "math.Abs(" + args[0] + ")"
			case "f64bits":
				g.imports["math"] = "math"
				return "math.Float64bits(" + args[0] + ")"
			case "f64frombits":
				g.imports["math"] = "math"
				return "math.Float64frombits(" + args[0] + ")"
			case "haskey":
				return "func() bool { _, ok := " + args[0] + "[" + args[1] + "]; return ok }()"
			case "nonnil":
				return "(" + args[0] + " != nil)"
			case "feq":
				g.imports["math"] = "math"
				return "(math.Float64bits(" + args[0] + ") == math.Float64bits(" + args[1] + ") || (math.IsNaN(" + args[0] + ") && math.IsNaN(" + args[1] + ")))"
			}
			if sp := g.w.specs[id.Name]; sp != nil {
				g.emitSpec(sp)
				return "govcSpec_" + id.Name + "(" + strings.Join(args, ", ") + ")"
			}
		}
		return g.goExpr(n.Fun, pkg, ren) + "(" + strings.Join(args, ", ") + ")"
	}
	panic(fmt.Sprintf("unsupported expression %T", x))
}

func (g *replayGen) isParam(name string) bool {
	_, ok := g.t.params[name]
	return ok
}

func (g *replayGen) emitSpec(sp *SpecFn) {
	if g.specs[sp.Name] {
		return
	}
	g.specs[sp.Name] = true
	pkg := g.w.pkgByPath(sp.Pkg, g.t.pkg)
	var ps []string
	for _, p := range sp.Params {
		ps = append(ps, p.Name+" "+g.specType(p.Type, pkg))
	}
	body := g.goExpr(sp.Body, pkg, map[string]string{})
	g.specSrc = append(g.specSrc, fmt.Sprintf("func govcSpec_%s(%s) %s { return %s }", sp.Name, strings.Join(ps, ", "), g.specType(sp.Result, pkg), body))
}

func (g *replayGen) specType(name string, pkg *types.Package) string {
	if i := strings.Index(name, "."); i >= 0 {
		alias := strings.TrimLeft(name[:i], "[]*")
		if p := g.w.importedPkg(pkg, alias); p != nil {
			g.imports[alias] = p.Path()
		}
	}
	return name
}

func runGoTest(repo, pkg, name, src string) (string, bool) {
	return runGoTestW(nil, repo, pkg, name, src)
}

func runGoTestW(w *World, repo, pkg, name, src string) (string, bool) {
	dir, err := os.MkdirTemp("", "govc-test-")
	if err != nil {
		return err.Error(), false
	}
	defer os.RemoveAll(dir)
	testFile := filepath.Join(dir, "zz_govc_replay_test.go")
	os.WriteFile(testFile, []byte(src), 0o644)
	ov := map[string]map[string]string{"Replace": {filepath.Join(repo, pkg, "zz_govc_replay_test.go"): testFile}}
	if w != nil {
		i := 0
		for p, data := range w.overlay {
			f := filepath.Join(dir, "ov"+strconv.Itoa(i)+".go")
			i++
			os.WriteFile(f, data, 0o644)
			ov["Replace"][p] = f
		}
	} else {
		// replay command: add mirror contract files that are missing from the repo
		files, fromMirror, _ := findContractFiles(repo, "/verif/contracts")
		i := 0
		for rel, path := range files {
			if fromMirror[rel] {
				ov["Replace"][filepath.Join(repo, "pkg", rel)] = path
				i++
			}
		}
	}
	ovData, _ := json.Marshal(ov)
	ovFile := filepath.Join(dir, "overlay.json")
	os.WriteFile(ovFile, ovData, 0o644)
	ctx, cancel := context.WithTimeout(context.Background(), 10*time.Minute)
	defer cancel()
	cmd := exec.CommandContext(ctx, "go", "test", "-tags", "verif", "-overlay", ovFile, "-vet=off", "-count=1", "-timeout", "120s", "-run", "^"+name+"$", "-v", "./"+pkg)
	cmd.Dir = repo
	cmd.Env = append(os.Environ(), "GOFLAGS=-mod=mod", "GOPROXY=off", "GOSUMDB=off", "GOTOOLCHAIN=local")
	var out bytes.Buffer
	cmd.Stdout = &out
	cmd.Stderr = &out
	err = cmd.Run()
	return out.String(), err != nil
}
