package main

// Translation of contract expressions (Go expression syntax + spec
// built-ins) into SMT terms, in an environment that fixes the heap state and
// the meaning of identifiers.

import (
	"fmt"
	"go/ast"
	"go/constant"
	"go/token"
	"go/types"
	"strconv"
	"strings"

	"golang.org/x/tools/go/ssa"
)

type Env struct {
	t      *FnTrans
	st     *HeapState
	old    *Env
	vars   map[string]Val
	lookup func(string) (Val, bool)
	pkg    *types.Package
	guard  string // guard under which loads happen (for type assumptions)
	depth  int
	skRoot string // identity of the clause instance being translated (stable skolem names)
	skCnt  *int
	callee bool // environment of a CALLEE's contract (its locals are not this function's)
	// instCtx: the instantiation context of the sub-formula being translated
	// (the candidate terms chosen for the enclosing instantiated quantifiers
	// and the spec calls entered), so that skolem constants get names that do
	// not depend on how many candidates there were
	instCtx string
}

type exprError struct{ msg string }

func (e *exprError) Error() string { return e.msg }

func (e *Env) fail(format string, a ...interface{}) {
	panic(&exprError{fmt.Sprintf(format, a...)})
}

func (e *Env) with(vars map[string]Val) *Env {
	n := *e
	n.vars = map[string]Val{}
	for k, v := range e.vars {
		n.vars[k] = v
	}
	for k, v := range vars {
		n.vars[k] = v
	}
	if e.old == e || e.old == nil {
		n.old = &n
	} else {
		o := *e.old
		o.vars = map[string]Val{}
		for k, v := range e.old.vars {
			o.vars[k] = v
		}
		for k, v := range vars {
			o.vars[k] = v
		}
		o.old = &o
		n.old = &o
	}
	return &n
}

// Formula translates a boolean contract expression.  pol=true: the formula
// is a goal (to be proved); pol=false: a hypothesis.
func (t *FnTrans) Formula(f Formula, pol bool) (term string, err error) {
	if f.Clause == nil {
		return f.Raw, nil
	}
	defer func() {
		if r := recover(); r != nil {
			if ee, ok := r.(*exprError); ok {
				err = fmt.Errorf("%s:%d: %s (in %q)", f.Clause.File, f.Clause.Line, ee.msg, f.Clause.Text)
				return
			}
			panic(r)
		}
	}()
	cnt := 0
	env := *f.Env
	env.skRoot = fmt.Sprintf("%p/%p", f.Clause, f.Env)
	if pol {
		// a goal is the only goal of its query: its skolem constants can be
		// shared by all instances of the clause (one per quantifier occurrence),
		// which keeps the set of instantiation candidates small
		env.skRoot = fmt.Sprintf("%p/goal", f.Clause)
	}
	env.skCnt = &cnt
	if f.Env.old == f.Env {
		env.old = &env
	} else if f.Env.old != nil {
		o := *f.Env.old
		o.skRoot, o.skCnt = env.skRoot, env.skCnt
		o.old = &o
		env.old = &o
	}
	return env.formula(f.Clause.Expr, pol), nil
}

func (e *Env) formula(x ast.Expr, pol bool) string {
	switch n := x.(type) {
	case *ast.ParenExpr:
		return e.formula(n.X, pol)
	case *ast.UnaryExpr:
		if n.Op == token.NOT {
			return not(e.formula(n.X, !pol))
		}
	case *ast.BinaryExpr:
		switch n.Op {
		case token.LAND:
			a := e.consequent(n.X, pol)
			if a == "false" {
				return "false"
			}
			return and(a, e.consequent(n.Y, pol))
		case token.LOR:
			a := e.consequent(n.X, pol)
			if a == "true" {
				return "true"
			}
			return or(a, e.consequent(n.Y, pol))
		}
	case *ast.CallExpr:
		if id, ok := n.Fun.(*ast.Ident); ok {
			switch id.Name {
			case "implies":
				e.nargs(n, 2)
				// lazy: when the antecedent is literally false the consequent is not
				// evaluated (it may mention locals that do not exist on this path)
				a := e.formula(n.Args[0], !pol)
				if a == "false" {
					return "true"
				}
				return implies(a, e.consequent(n.Args[1], pol))
			case "iff":
				e.nargs(n, 2)
				// both polarities: quantifiers not allowed inside
				return eq(e.boolTerm(n.Args[0]), e.boolTerm(n.Args[1]))
			case "forall", "exists":
				return e.quant(n, id.Name == "forall", pol)
			case "forallstr":
				return e.quantStr(n, pol)
			case "forallkey", "existskey":
				return e.quantKey(n, id.Name == "forallkey", pol)
			case "old":
				e.nargs(n, 1)
				return e.old.formula(n.Args[0], pol)
			}
			if sp := e.t.W.specs[id.Name]; sp != nil && sp.Result == "bool" {
				return e.specEnv(sp, n).formula(sp.Body, pol)
			}
		}
	}
	return e.boolTerm(x)
}

// consequent evaluates the right-hand side of an implication.  A local
// variable that does not exist on this path makes the consequent `false` in a
// goal (the obligation then holds only if the antecedent is refuted on the
// path) and `true` in a hypothesis; both are sound.
func (e *Env) consequent(x ast.Expr, pol bool) (res string) {
	defer func() {
		if r := recover(); r != nil {
			if ee, ok := r.(*exprError); ok && strings.HasPrefix(ee.msg, "unknown identifier") {
				e.t.note("contract clause: %s on some path (sub-formula treated as %v)", ee.msg, !pol)
				if pol {
					res = "false"
				} else {
					res = "true"
				}
				return
			}
			panic(r)
		}
	}()
	return e.formula(x, pol)
}

func (e *Env) nargs(n *ast.CallExpr, k int) {
	if len(n.Args) != k {
		e.fail("%s expects %d arguments", exprString(n.Fun), k)
	}
}

func exprString(x ast.Expr) string {
	return types.ExprString(x)
}

func (e *Env) boolTerm(x ast.Expr) string {
	v := e.eval(x)
	v = e.t.materialize(v, types.Typ[types.Bool])
	if v.K != VScalar {
		e.fail("expression %s is not a boolean term (abstracted value)", exprString(x))
	}
	return v.S
}

func (e *Env) quant(n *ast.CallExpr, isForall bool, pol bool) string {
	e.nargs(n, 4)
	id, ok := n.Args[0].(*ast.Ident)
	if !ok {
		e.fail("first argument of forall/exists must be an identifier")
	}
	t := e.t
	lo, ok1 := t.toIdx(e.eval(n.Args[1]))
	hi, ok2 := t.toIdx(e.eval(n.Args[2]))
	if !ok1 || !ok2 {
		e.fail("quantifier bounds are not integer terms")
	}
	intT := types.Typ[types.Int]
	inRange := func(c string) string { return and(t.cmpIdx("<=", lo, c), t.cmpIdx("<", c, hi)) }
	// forall in goal position / exists in hypothesis position: skolemise
	if isForall == pol {
		// stable skolem constant per quantifier occurrence of this clause instance
		key := ""
		if e.skCnt != nil {
			key = fmt.Sprintf("%s#%d@%s", e.skRoot, n.Pos(), e.instCtx)
		}
		sk, ok := t.skCache[key]
		if !ok || key == "" {
			sk = t.declare(t.fresh("sk."+id.Name), t.mode.idxSort())
			if key != "" {
				t.skCache[key] = sk
			}
		}
		t.idxTerms[sk] = true
		// the neighbour of a skolem index is what element-shifting code
		// (append(s[:i], s[i+1:]...), copy) relates it to
		if t.idxNeighbours == nil {
			t.idxNeighbours = map[string]bool{}
		}
		t.idxNeighbours[t.addIdx(sk, t.mode.intLit64(1, 64))] = true
		body := e.with(map[string]Val{id.Name: scalar(intT, sk)}).formula(n.Args[3], pol)
		if isForall {
			return implies(inRange(sk), body)
		}
		return and(inRange(sk), body)
	}
	// forall in hypothesis position / exists in goal position: instantiate
	cands := t.candidates(lo, hi)
	var parts []string
	for _, c := range cands {
		ce := e.with(map[string]Val{id.Name: scalar(intT, c)})
		ce.instCtx = e.instCtx + "|" + c
		if ce.old != nil && ce.old != ce {
			ce.old.instCtx = ce.instCtx
		}
		body := ce.formula(n.Args[3], pol)
		if isForall {
			parts = append(parts, implies(inRange(c), body))
		} else {
			parts = append(parts, and(inRange(c), body))
		}
	}
	if isForall {
		return and(parts...)
	}
	return or(parts...)
}

// forallstr(c, body): quantification over all strings (map keys).  Goal side:
// skolem constant; hypothesis side: instantiated at the string skolems of the
// function.
func (e *Env) quantStr(n *ast.CallExpr, pol bool) string {
	e.nargs(n, 2)
	id, ok := n.Args[0].(*ast.Ident)
	if !ok {
		e.fail("first argument of forallstr must be an identifier")
	}
	t := e.t
	strT := types.Typ[types.String]
	if pol {
		key := ""
		if e.skCnt != nil {
			key = fmt.Sprintf("%s#%d@%s", e.skRoot, n.Pos(), e.instCtx)
		}
		sk, ok := t.skCache[key]
		if !ok || key == "" {
			sk = t.declare(t.fresh("sks."+id.Name), "Str")
			if key != "" {
				t.skCache[key] = sk
			}
		}
		t.strTerms[sk] = true
		return e.with(map[string]Val{id.Name: scalar(strT, sk)}).formula(n.Args[1], pol)
	}
	var ks []string
	for k := range t.strTerms {
		ks = append(ks, k)
	}
	sortStrings(ks)
	var parts []string
	for _, c := range ks {
		ce := e.with(map[string]Val{id.Name: scalar(strT, c)})
		ce.instCtx = e.instCtx + "|" + c
		if ce.old != nil && ce.old != ce {
			ce.old.instCtx = ce.instCtx
		}
		parts = append(parts, ce.formula(n.Args[1], pol))
	}
	return and(parts...)
}

// forallkey(k, T, body) / existskey(k, T, body): quantification over all values
// of a scalar key type T (map keys).  Skolemised where the quantifier is a
// universal goal / existential hypothesis; otherwise instantiated at the key
// terms of that sort the function and its contract use (map look-ups, updates,
// deletes, keys produced by ranges, key skolems).
func (e *Env) quantKey(n *ast.CallExpr, isForall bool, pol bool) string {
	e.nargs(n, 3)
	id, ok := n.Args[0].(*ast.Ident)
	if !ok {
		e.fail("first argument of forallkey/existskey must be an identifier")
	}
	t := e.t
	var ty types.Type
	if tid, ok := n.Args[1].(*ast.Ident); ok {
		if bt, ok := convNames[tid.Name]; ok {
			ty = bt
		}
	}
	if ty == nil {
		ty = e.namedType(n.Args[1])
	}
	if ty == nil || t.mode.scalarSort(ty) == "" {
		e.fail("forallkey/existskey: %s is not a scalar type", exprString(n.Args[1]))
	}
	ks := t.mode.scalarSort(ty)
	if isForall == pol {
		key := ""
		if e.skCnt != nil {
			key = fmt.Sprintf("%s#%d@%s", e.skRoot, n.Pos(), e.instCtx)
		}
		sk, ok := t.skCache[key]
		if !ok || key == "" {
			sk = t.declare(t.fresh("skk."+id.Name), ks)
			if key != "" {
				t.skCache[key] = sk
			}
		}
		if t.keyTerms == nil {
			t.keyTerms = map[string]map[string]bool{}
		}
		if t.keyTerms[ks] == nil {
			t.keyTerms[ks] = map[string]bool{}
		}
		t.keyTerms[ks][sk] = true
		if ks == "Str" {
			t.strTerms[sk] = true
		}
		v := scalar(ty, sk)
		body := e.with(map[string]Val{id.Name: v}).formula(n.Args[2], pol)
		if t.mode.isInt() {
			if w, s, isInt := intInfo(ty); isInt {
				if isForall {
					return implies(rangeInt(sk, w, s), body)
				}
				return and(rangeInt(sk, w, s), body)
			}
		}
		return body
	}
	var cs []string
	for c := range t.keyTerms[ks] {
		cs = append(cs, c)
	}
	if ks == "Str" {
		for c := range t.strTerms {
			if !t.keyTerms[ks][c] {
				cs = append(cs, c)
			}
		}
	}
	sortStrings(cs)
	// skolem constants and keys produced by ranges first: they are the terms
	// goals and loop bodies talk about
	var first, rest []string
	for _, c := range cs {
		if strings.HasPrefix(c, "sk") || strings.HasPrefix(c, "next.") {
			first = append(first, c)
		} else {
			rest = append(rest, c)
		}
	}
	cs = append(first, rest...)
	if len(cs) > t.W.maxCands {
		cs = cs[:t.W.maxCands]
	}
	var parts []string
	for _, c := range cs {
		ce := e.with(map[string]Val{id.Name: scalar(ty, c)})
		ce.instCtx = e.instCtx + "|" + c
		if ce.old != nil && ce.old != ce {
			ce.old.instCtx = ce.instCtx
		}
		parts = append(parts, ce.formula(n.Args[2], pol))
	}
	if isForall {
		return and(parts...)
	}
	return or(parts...)
}

func (t *FnTrans) candidates(lo, hi string) []string {
	seen := map[string]bool{}
	var res []string
	add := func(s string) {
		if !seen[s] {
			seen[s] = true
			res = append(res, s)
		}
	}
	add(lo)
	add(t.subIdx(hi, t.mode.intLit64(1, 64)))
	var ks []string
	for k := range t.idxTerms {
		ks = append(ks, k)
	}
	sortStrings(ks)
	for _, k := range ks {
		add(k)
	}
	if len(res) > t.W.maxCands {
		res = res[:t.W.maxCands]
	}
	// second-rank candidates (neighbours of skolem indices): only in the room
	// that is left, so that they never displace a first-rank candidate
	var ns []string
	for k := range t.idxNeighbours {
		ns = append(ns, k)
	}
	sortStrings(ns)
	for _, k := range ns {
		if len(res) >= t.W.maxCands+16 {
			break
		}
		add(k)
	}
	return res
}

func (e *Env) specEnv(sp *SpecFn, n *ast.CallExpr) *Env {
	if len(n.Args) != len(sp.Params) {
		e.fail("spec %s expects %d arguments", sp.Name, len(sp.Params))
	}
	if e.depth > 40 {
		e.fail("spec recursion too deep in %s", sp.Name)
	}
	vars := map[string]Val{}
	for i, p := range sp.Params {
		v := e.eval(n.Args[i])
		if ty := e.t.W.resolveType(p.Type, e.pkg, sp.Pkg); ty != nil {
			v = e.t.materialize(v, ty)
			if v.K == VScalar && v.T != nil && !types.Identical(v.T.Underlying(), ty.Underlying()) {
				// implicit conversion is not Go; insist on identical representation
				if e.t.mode.scalarSort(v.T) != e.t.mode.scalarSort(ty) {
					e.fail("spec %s: argument %d has type %s, want %s", sp.Name, i+1, v.T, ty)
				}
			}
			if v.K == VScalar {
				v.T = ty
			}
		}
		vars[p.Name] = v
	}
	ne := &Env{t: e.t, st: e.st, vars: vars, pkg: e.t.W.pkgByPath(sp.Pkg, e.pkg), guard: e.guard, depth: e.depth + 1, skRoot: e.skRoot, skCnt: e.skCnt, instCtx: fmt.Sprintf("%s/%s@%d", e.instCtx, sp.Name, n.Pos())}
	if e.old == e {
		ne.old = ne
	} else if e.old != nil {
		ne.old = &Env{t: e.t, st: e.old.st, vars: vars, pkg: ne.pkg, guard: e.guard, depth: e.depth + 1, skRoot: e.skRoot, skCnt: e.skCnt, instCtx: ne.instCtx}
		ne.old.old = ne.old
	}
	return ne
}

func (e *Env) ident(name string) Val {
	if v, ok := e.vars[name]; ok {
		return v
	}
	switch name {
	case "true":
		return Val{K: VConst, T: types.Typ[types.UntypedBool], C: constant.MakeBool(true)}
	case "false":
		return Val{K: VConst, T: types.Typ[types.UntypedBool], C: constant.MakeBool(false)}
	case "nil":
		return Val{K: VConst, T: types.Typ[types.UntypedNil]}
	}
	if e.lookup != nil {
		if v, ok := e.lookup(name); ok {
			return v
		}
	}
	if e.pkg != nil {
		if obj := e.pkg.Scope().Lookup(name); obj != nil {
			if c, ok := obj.(*types.Const); ok {
				return Val{K: VConst, T: c.Type(), C: c.Val()}
			}
			if _, ok := obj.(*types.Var); ok {
				if sp := e.t.W.prog.Package(e.pkg); sp != nil {
					if sg, ok := sp.Members[name].(*ssa.Global); ok {
						if cg := e.t.W.constGlobalOf(sg); cg != nil {
							return e.t.constGlobalVal(sg, cg, obj.Type())
						}
					}
				}
				// package-level variable: a global cell
				g := "global." + sanitize(e.pkg.Name()+"."+name)
				e.t.declare(g, "Int")
				return e.loadPtr(scalar(types.NewPointer(obj.Type()), g), obj.Type())
			}
		}
	}
	// dot-imported names: constants of imported siglens packages
	if e.pkg != nil {
		for _, imp := range e.pkg.Imports() {
			if !strings.HasPrefix(imp.Path(), modulePath) {
				continue
			}
			if c, ok := imp.Scope().Lookup(name).(*types.Const); ok && c.Exported() {
				return Val{K: VConst, T: c.Type(), C: c.Val()}
			}
		}
	}
	// a name that no variable of the function under contract carries (any
	// more): the contract is stale with respect to the code (e.g. a renamed
	// local), which is a different thing from a variable that merely is not
	// defined on this path
	if e.t != nil && e.depth == 0 && !e.callee && !e.t.fnHasName(name) {
		e.fail("stale identifier %s: the function has no variable of that name", name)
	}
	e.fail("unknown identifier %s", name)
	return Val{}
}

// fnHasName: does the function under translation have a parameter, named
// result, captured variable or local variable with this name?
func (t *FnTrans) fnHasName(name string) bool {
	if t.fnNames == nil {
		t.fnNames = map[string]bool{}
		fn := t.fn
		for _, p := range fn.Params {
			t.fnNames[p.Name()] = true
		}
		for _, fv := range fn.FreeVars {
			t.fnNames[fv.Name()] = true
		}
		if res := fn.Signature.Results(); res != nil {
			for i := 0; i < res.Len(); i++ {
				t.fnNames[res.At(i).Name()] = true
			}
		}
		for _, b := range fn.Blocks {
			for _, in := range b.Instrs {
				if d, ok := in.(*ssa.DebugRef); ok {
					if id, ok := d.Expr.(*ast.Ident); ok {
						t.fnNames[id.Name] = true
					}
				}
				if a, ok := in.(*ssa.Alloc); ok && a.Comment != "" {
					t.fnNames[a.Comment] = true
				}
			}
		}
		// source-level declarations (covers variables without a DebugRef)
		if syn, ok := fn.Syntax().(ast.Node); ok && syn != nil {
			ast.Inspect(syn, func(n ast.Node) bool {
				if id, ok := n.(*ast.Ident); ok && id.Obj != nil && id.Obj.Kind == ast.Var {
					t.fnNames[id.Name] = true
				}
				if as, ok := n.(*ast.AssignStmt); ok && as.Tok == token.DEFINE {
					for _, l := range as.Lhs {
						if id, ok := l.(*ast.Ident); ok {
							t.fnNames[id.Name] = true
						}
					}
				}
				if rs, ok := n.(*ast.RangeStmt); ok {
					for _, l := range []ast.Expr{rs.Key, rs.Value} {
						if id, ok := l.(*ast.Ident); ok {
							t.fnNames[id.Name] = true
						}
					}
				}
				if vs, ok := n.(*ast.ValueSpec); ok {
					for _, id := range vs.Names {
						t.fnNames[id.Name] = true
					}
				}
				return true
			})
		}
	}
	return t.fnNames[name]
}

func (e *Env) loadPtr(p Val, elem types.Type) Val {
	g := e.guard
	if g == "" {
		g = "true"
	}
	switch p.K {
	case VAddr:
		return e.t.load(e.st, p.L, g)
	case VScalar:
		return e.t.load(e.st, e.t.cellLoc(elem, p.S), g)
	}
	return unknown(elem)
}

func (e *Env) eval(x ast.Expr) Val {
	t := e.t
	switch n := x.(type) {
	case *ast.ParenExpr:
		return e.eval(n.X)
	case *ast.TypeAssertExpr:
		// x.(T) for a scalar type T: the value boxed in the interface (the same
		// unbox function the translation of the code uses); meaningful only
		// where the dynamic type is T
		v := e.eval(n.X)
		var ty types.Type
		if id, ok := n.Type.(*ast.Ident); ok {
			if bt, ok := convNames[id.Name]; ok {
				ty = bt
			}
		}
		if ty == nil {
			ty = e.namedType(n.Type)
		}
		if ty == nil {
			ty = e.typeOfExpr(n.Type)
		}
		if ty == nil || v.K != VScalar || t.mode.scalarSort(ty) == "" {
			e.fail("unsupported type assertion in a contract expression")
		}
		un := t.declareFun("unbox."+typeKey(ty), []string{"Iface"}, t.mode.scalarSort(ty))
		return scalar(ty, sx(un, v.S))
	case *ast.Ident:
		return e.ident(n.Name)
	case *ast.BasicLit:
		switch n.Kind {
		case token.INT:
			return Val{K: VConst, T: types.Typ[types.UntypedInt], C: constant.MakeFromLiteral(n.Value, token.INT, 0)}
		case token.FLOAT:
			return Val{K: VConst, T: types.Typ[types.UntypedFloat], C: constant.MakeFromLiteral(n.Value, token.FLOAT, 0)}
		case token.STRING:
			s, _ := strconv.Unquote(n.Value)
			return Val{K: VConst, T: types.Typ[types.UntypedString], C: constant.MakeString(s)}
		case token.CHAR:
			return Val{K: VConst, T: types.Typ[types.UntypedRune], C: constant.MakeFromLiteral(n.Value, token.CHAR, 0)}
		}
	case *ast.UnaryExpr:
		if n.Op == token.AND {
			e.fail("address-of is not supported in contracts")
		}
		return t.unop(n.Op, e.eval(n.X))
	case *ast.BinaryExpr:
		a, b := e.eval(n.X), e.eval(n.Y)
		if n.Op == token.LAND || n.Op == token.LOR {
			a = t.materialize(a, types.Typ[types.Bool])
			b = t.materialize(b, types.Typ[types.Bool])
		}
		r := t.binop(n.Op, a, b)
		if r.K == VUnknown {
			e.fail("operator %s not expressible on these operands in %s", n.Op, exprString(x))
		}
		return r
	case *ast.StarExpr:
		p := e.eval(n.X)
		pt, ok := p.T.Underlying().(*types.Pointer)
		if !ok {
			e.fail("dereference of non-pointer %s", exprString(n.X))
		}
		return e.loadPtr(p, pt.Elem())
	case *ast.SelectorExpr:
		return e.selector(n)
	case *ast.IndexExpr:
		return e.index(n)
	case *ast.SliceExpr:
		return e.sliceExpr(n)
	case *ast.CallExpr:
		return e.call(n)
	}
	e.fail("unsupported expression %s", exprString(x))
	return Val{}
}

func (e *Env) selector(n *ast.SelectorExpr) Val {
	t := e.t
	// package-qualified constant?
	if id, ok := n.X.(*ast.Ident); ok {
		if _, isVar := e.vars[id.Name]; !isVar {
			isLocal := false
			if e.lookup != nil {
				_, isLocal = e.lookup(id.Name)
			}
			if !isLocal && e.pkg != nil && e.pkg.Scope().Lookup(id.Name) == nil {
				if p := t.W.importedPkg(e.pkg, id.Name); p != nil {
					obj := p.Scope().Lookup(n.Sel.Name)
					if c, ok := obj.(*types.Const); ok {
						return Val{K: VConst, T: c.Type(), C: c.Val()}
					}
					if v, ok := obj.(*types.Var); ok {
						// never-assigned literal slice: the same constant the code sees
						if sp := t.W.prog.Package(p); sp != nil {
							if sg, ok := sp.Members[n.Sel.Name].(*ssa.Global); ok {
								if cg := t.W.constGlobalOf(sg); cg != nil {
									return t.constGlobalVal(sg, cg, v.Type())
								}
							}
						}
						// package-level variable of another package: a global cell
						g := "global." + sanitize(p.Name()+"."+n.Sel.Name)
						t.declare(g, "Int")
						return e.loadPtr(scalar(types.NewPointer(v.Type()), g), v.Type())
					}
					e.fail("%s.%s is not a constant or variable", id.Name, n.Sel.Name)
				}
			}
		}
	}
	base := e.eval(n.X)
	if base.T == nil {
		e.fail("cannot select %s on untyped value", n.Sel.Name)
	}
	obj, path, _ := types.LookupFieldOrMethod(base.T, true, e.pkgOf(base.T), n.Sel.Name)
	if _, ok := obj.(*types.Var); !ok || len(path) == 0 {
		e.fail("no field %s in %s", n.Sel.Name, base.T)
	}
	cur := base
	for _, fi := range path {
		cur = e.fieldOf(cur, fi)
	}
	return cur
}

func (e *Env) pkgOf(ty types.Type) *types.Package {
	if p, ok := ty.Underlying().(*types.Pointer); ok {
		ty = p.Elem()
	}
	if n, ok := ty.(*types.Named); ok && n.Obj().Pkg() != nil {
		return n.Obj().Pkg()
	}
	return e.pkg
}

func (e *Env) fieldOf(base Val, fi int) Val {
	t := e.t
	g := e.guard
	if g == "" {
		g = "true"
	}
	ty := base.T
	if pt, ok := ty.Underlying().(*types.Pointer); ok {
		st := pt.Elem()
		if base.K != VScalar {
			e.fail("field access through abstracted pointer")
		}
		l := t.fieldLoc(st, fi, base.S)
		if isStructOrArray(l.T) {
			// keep as reference (pointer to the inline object)
			return scalar(types.NewPointer(l.T), t.subRef(l))
		}
		return t.load(e.st, l, g)
	}
	if base.K == VStruct {
		return base.Sub[fi]
	}
	e.fail("field access on unsupported value of type %s", ty)
	return Val{}
}

func (e *Env) index(n *ast.IndexExpr) Val {
	t := e.t
	g := e.guard
	if g == "" {
		g = "true"
	}
	base := e.eval(n.X)
	bt := base.T
	if bt == nil {
		e.fail("index of untyped value")
	}
	// pointer to array (e.g. n.bytes through a pointer receiver)
	if pt, ok := bt.Underlying().(*types.Pointer); ok {
		if at, ok := pt.Elem().Underlying().(*types.Array); ok {
			i, ok := t.toIdx(e.eval(n.Index))
			if !ok {
				e.fail("bad index")
			}
			if isStructOrArray(at.Elem()) {
				l := t.elemLoc(at.Elem(), base.S, i)
				return scalar(types.NewPointer(at.Elem()), t.subRef(l))
			}
			return t.load(e.st, t.elemLoc(at.Elem(), base.S, i), g)
		}
	}
	switch u := bt.Underlying().(type) {
	case *types.Slice:
		if base.K != VSlice {
			e.fail("index of abstracted slice")
		}
		i, ok := t.toIdx(e.eval(n.Index))
		if !ok {
			e.fail("bad index")
		}
		l := t.elemLoc(u.Elem(), base.Sub[0].S, t.addIdx(base.Sub[1].S, i))
		if isStructOrArray(u.Elem()) {
			return scalar(types.NewPointer(u.Elem()), t.subRef(l))
		}
		return t.load(e.st, l, g)
	case *types.Array:
		i, ok := t.toIdx(e.eval(n.Index))
		if !ok || base.K != VArray {
			e.fail("bad array index")
		}
		return scalar(u.Elem(), sx("select", base.S, i))
	case *types.Map:
		k := t.materialize(e.eval(n.Index), u.Key())
		if base.K != VScalar || k.K != VScalar {
			e.fail("map index not expressible")
		}
		v, _ := t.mapRead(e.st, u, base.S, k.S, g)
		return v
	case *types.Basic:
		if isString(bt) {
			i, ok := t.toIdx(e.eval(n.Index))
			if !ok {
				e.fail("bad index")
			}
			b := t.materialize(base, types.Typ[types.String])
			f := t.declareFun("gstr.at", []string{"Str", t.mode.idxSort()}, t.mode.intSort(8))
			return scalar(types.Typ[types.Uint8], sx(f, b.S, i))
		}
	}
	e.fail("cannot index %s", bt)
	return Val{}
}

func (e *Env) sliceExpr(n *ast.SliceExpr) Val {
	t := e.t
	base := e.eval(n.X)
	if base.K == VScalar {
		if pt, ok := base.T.Underlying().(*types.Pointer); ok {
			if at, ok := pt.Elem().Underlying().(*types.Array); ok {
				nn := t.mode.intLit64(at.Len(), 64)
				base = Val{K: VSlice, T: types.NewSlice(at.Elem()), Sub: []Val{scalar(nil, base.S), scalar(nil, t.mode.intLit64(0, 64)), scalar(nil, nn), scalar(nil, nn)}}
			}
		}
	}
	if base.K != VSlice {
		e.fail("slice expression on non-slice")
	}
	lo := t.mode.intLit64(0, 64)
	hi := base.Sub[2].S
	if n.Low != nil {
		lo, _ = t.toIdx(e.eval(n.Low))
	}
	if n.High != nil {
		hi, _ = t.toIdx(e.eval(n.High))
	}
	return Val{K: VSlice, T: base.T, Sub: []Val{base.Sub[0], scalar(nil, t.addIdx(base.Sub[1].S, lo)), scalar(nil, t.subIdx(hi, lo)), scalar(nil, t.subIdx(base.Sub[3].S, lo))}}
}

var convNames = map[string]types.Type{
	"int": types.Typ[types.Int], "int8": types.Typ[types.Int8], "int16": types.Typ[types.Int16], "int32": types.Typ[types.Int32], "int64": types.Typ[types.Int64],
	"uint": types.Typ[types.Uint], "uint8": types.Typ[types.Uint8], "byte": types.Typ[types.Uint8], "uint16": types.Typ[types.Uint16], "uint32": types.Typ[types.Uint32], "uint64": types.Typ[types.Uint64],
	"float64": types.Typ[types.Float64], "float32": types.Typ[types.Float32], "bool": types.Typ[types.Bool], "string": types.Typ[types.String],
}

func (e *Env) call(n *ast.CallExpr) Val {
	t := e.t
	bt := types.Typ[types.Bool]
	if id, ok := n.Fun.(*ast.Ident); ok {
		if ty, ok := convNames[id.Name]; ok && len(n.Args) == 1 {
			if _, shadow := e.vars[id.Name]; !shadow {
				r := t.convert(e.eval(n.Args[0]), ty)
				if r.K == VUnknown {
					e.fail("conversion %s not expressible", exprString(n))
				}
				return r
			}
		}
		switch id.Name {
		case "len", "cap":
			e.nargs(n, 1)
			v := e.eval(n.Args[0])
			switch v.K {
			case VSlice:
				if id.Name == "len" {
					return scalar(types.Typ[types.Int], v.Sub[2].S)
				}
				return scalar(types.Typ[types.Int], v.Sub[3].S)
			case VScalar:
				if isString(v.T) {
					return scalar(types.Typ[types.Int], sx(t.strLen(), v.S))
				}
				if pt, ok := v.T.Underlying().(*types.Pointer); ok {
					if at, ok := pt.Elem().Underlying().(*types.Array); ok {
						return Val{K: VConst, T: types.Typ[types.Int], C: constant.MakeInt64(at.Len())}
					}
				}
				if mt, ok := v.T.Underlying().(*types.Map); ok {
					return scalar(types.Typ[types.Int], t.mapLenTerm(e.st, mt, v.S))
				}
			case VConst:
				if v.C != nil && v.C.Kind() == constant.String {
					return Val{K: VConst, T: types.Typ[types.Int], C: constant.MakeInt64(int64(len(constant.StringVal(v.C))))}
				}
			case VArray:
				if at, ok := v.T.Underlying().(*types.Array); ok {
					return Val{K: VConst, T: types.Typ[types.Int], C: constant.MakeInt64(at.Len())}
				}
			}
			e.fail("len/cap of unsupported value %s", exprString(n.Args[0]))
		case "old":
			e.nargs(n, 1)
			return e.old.eval(n.Args[0])
		case "implies":
			e.nargs(n, 2)
			return scalar(bt, implies(e.boolTerm(n.Args[0]), e.boolTerm(n.Args[1])))
		case "iff":
			e.nargs(n, 2)
			return scalar(bt, eq(e.boolTerm(n.Args[0]), e.boolTerm(n.Args[1])))
		case "forall", "exists":
			e.fail("quantifier in term position (only allowed under &&, ||, !, implies at the top of a clause)")
		case "ite":
			e.nargs(n, 3)
			c := e.boolTerm(n.Args[0])
			a, b := e.eval(n.Args[1]), e.eval(n.Args[2])
			if a.K == VConst && b.K != VConst {
				a = t.materialize(a, b.T)
			}
			if b.K == VConst && a.K != VConst {
				b = t.materialize(b, a.T)
			}
			if a.K == VConst && b.K == VConst {
				a = t.materialize(a, a.T)
				b = t.materialize(b, a.T)
			}
			if a.K != VScalar || b.K != VScalar {
				e.fail("ite on composite values")
			}
			return scalar(a.T, ite(c, a.S, b.S))
		case "isNaN":
			e.nargs(n, 1)
			v := t.materialize(e.eval(n.Args[0]), types.Typ[types.Float64])
			if t.mode.isReal() {
				return scalar(bt, "false")
			}
			return scalar(bt, sx("fp.isNaN", v.S))
		case "isInf":
			e.nargs(n, 1)
			v := t.materialize(e.eval(n.Args[0]), types.Typ[types.Float64])
			if t.mode.isReal() {
				return scalar(bt, "false")
			}
			return scalar(bt, sx("fp.isInfinite", v.S))
		case "fabs":
			e.nargs(n, 1)
			v := t.materialize(e.eval(n.Args[0]), types.Typ[types.Float64])
			if t.mode.isReal() {
				return scalar(v.T, ite(sx(">=", v.S, "0.0"), v.S, sx("-", v.S)))
			}
			return scalar(v.T, sx("fp.abs", v.S))
		case "f64bits":
			e.nargs(n, 1)
			v := t.materialize(e.eval(n.Args[0]), types.Typ[types.Float64])
			return t.float64bits(v)
		case "f64frombits":
			e.nargs(n, 1)
			v := t.materialize(e.eval(n.Args[0]), types.Typ[types.Uint64])
			return t.float64frombits(v)
		case "floor":
			e.nargs(n, 1)
			v := t.materialize(e.eval(n.Args[0]), types.Typ[types.Float64])
			if t.mode.isReal() {
				return scalar(v.T, sx("to_real", sx("to_int", v.S)))
			}
			return scalar(v.T, sx("fp.roundToIntegral", "RTN", v.S))
		case "feq":
			// structural float equality (NaN == NaN, +0 != -0): SMT "="
			e.nargs(n, 2)
			a := t.materialize(e.eval(n.Args[0]), types.Typ[types.Float64])
			b := t.materialize(e.eval(n.Args[1]), types.Typ[types.Float64])
			return scalar(bt, eq(a.S, b.S))
		case "haskey":
			e.nargs(n, 2)
			m := e.eval(n.Args[0])
			mt, ok := m.T.Underlying().(*types.Map)
			if !ok || m.K != VScalar {
				e.fail("haskey needs a map")
			}
			k := t.materialize(e.eval(n.Args[1]), mt.Key())
			if k.K != VScalar {
				e.fail("haskey: key not expressible")
			}
			g := e.guard
			if g == "" {
				g = "true"
			}
			_, present := t.mapRead(e.st, mt, m.S, k.S, g)
			return scalar(bt, present)
		case "nonnil":
			e.nargs(n, 1)
			v := e.eval(n.Args[0])
			z := t.zeroVal(v.T)
			eqt := t.valEq(v, z)
			if eqt == "" {
				e.fail("nonnil of unsupported value")
			}
			return scalar(bt, not(eqt))
		case "samebase":
			// samebase(a, b): two slices share their backing array and offset
			e.nargs(n, 2)
			a, b := e.eval(n.Args[0]), e.eval(n.Args[1])
			if a.K != VSlice || b.K != VSlice {
				e.fail("samebase needs slices")
			}
			return scalar(bt, and(eq(a.Sub[0].S, b.Sub[0].S), eq(a.Sub[1].S, b.Sub[1].S)))
		case "samearray":
			// samearray(a, b): two slices live in the same backing array (at any offsets)
			e.nargs(n, 2)
			a, b := e.eval(n.Args[0]), e.eval(n.Args[1])
			if a.K != VSlice || b.K != VSlice {
				e.fail("samearray needs slices")
			}
			return scalar(bt, eq(a.Sub[0].S, b.Sub[0].S))
		case "offsetof":
			// offsetof(a): index of a[0] in a's backing array
			e.nargs(n, 1)
			a := e.eval(n.Args[0])
			if a.K != VSlice {
				e.fail("offsetof needs a slice")
			}
			return scalar(types.Typ[types.Int], a.Sub[1].S)
		case "isdyn":
			// isdyn(x, T): the interface value x is non-nil and its dynamic type is T (T or *T)
			e.nargs(n, 2)
			v := e.eval(n.Args[0])
			var ty types.Type
			if id2, ok := n.Args[1].(*ast.Ident); ok {
				if bt2, ok := convNames[id2.Name]; ok {
					ty = bt2
				}
			}
			if ty == nil {
				ty = e.namedType(n.Args[1])
			}
			if ty == nil {
				ty = e.typeOfExpr(n.Args[1])
			}
			if ty == nil || v.K != VScalar {
				e.fail("isdyn(x, T): unsupported operand")
			}
			t.declare("iface.nil", "Iface")
			tyOf := t.declareFun("iface.type", []string{"Iface"}, "Int")
			return scalar(bt, and(not(eq(v.S, "iface.nil")), eq(sx(tyOf, v.S), t.typeTag(ty))))
		case "allocated":
			// allocated(x): the reference x denotes nil or an object that exists now
			// (it lies at or below the allocation frontier), so anything allocated
			// from here on is a different object
			e.nargs(n, 1)
			v := e.eval(n.Args[0])
			ref := ""
			switch v.K {
			case VScalar:
				ref = v.S
			case VSlice:
				ref = v.Sub[0].S
			default:
				e.fail("allocated() needs a reference")
			}
			if !t.declSet["ALLOC0"] {
				t.declare("ALLOC0", "Int")
				t.assume("true", sx(">", "ALLOC0", "0"), "allocation frontier is above nil")
			}
			fr := sx("select", t.heapGet(e.st, "G.ALLOCF", arraySort("Int", "Int")), "0")
			// the frontier never lies below ALLOC0 (it starts there and only moves up)
			t.assume("true", sx(">=", fr, "ALLOC0"), "allocation frontier is at or above its entry value")
			return scalar(bt, sx("<=", ref, fr))
		case "fresh":
			// fresh(x): the object x was allocated by THIS activation of the
			// function (it lies above the allocation frontier of the entry state)
			e.nargs(n, 1)
			v := e.eval(n.Args[0])
			ref := ""
			switch v.K {
			case VScalar:
				ref = v.S
			case VSlice:
				ref = v.Sub[0].S
			default:
				e.fail("fresh() needs a reference")
			}
			if !t.declSet["ALLOC0"] {
				t.declare("ALLOC0", "Int")
				t.assume("true", sx(">", "ALLOC0", "0"), "allocation frontier is above nil")
			}
			return scalar(bt, sx(">", ref, "ALLOC0"))
		case "measure":
			// measure(N): the value the `decreases` measure of loop N had at the
			// head of that loop's current iteration (lets the invariant of an
			// INNER loop say "the outer measure has already gone down")
			e.nargs(n, 1)
			lit, ok := n.Args[0].(*ast.BasicLit)
			if !ok {
				e.fail("measure(N): N must be a loop ordinal literal")
			}
			ord, _ := strconv.Atoi(lit.Value)
			for _, li := range t.loops {
				if li.ordinal == ord && li.decHead != "" {
					return scalar(types.Typ[types.Int], li.decHead)
				}
			}
			e.fail("stale identifier: measure(%d): loop %d has no decreases clause (or is not an enclosing loop)", ord, ord)
		case "untainted":
			// untainted(N): no insertion went into the map that loop N ranges over since its range started
			e.nargs(n, 1)
			lit, ok := n.Args[0].(*ast.BasicLit)
			if !ok {
				e.fail("untainted(N): N must be a loop ordinal literal")
			}
			ord, _ := strconv.Atoi(lit.Value)
			var rg *ssa.Range
			for _, li := range t.loops {
				if li.ordinal != ord {
					continue
				}
				for _, in := range li.header.Instrs {
					if nx, ok := in.(*ssa.Next); ok {
						if r, ok := nx.Iter.(*ssa.Range); ok {
							rg = r
						}
					}
				}
			}
			if rg == nil {
				e.fail("untainted(%d): loop %d is not a range over a map", ord, ord)
			}
			comp, _, _, has := t.rangeVisited(rg)
			if !has {
				e.fail("untainted(%d): unsupported key type", ord)
			}
			tcomp := strings.Replace(comp, "G.V.", "G.VT.", 1)
			return scalar(bt, not(sx("select", t.heapGet(e.st, tcomp, arraySort("Int", "Bool")), "0")))
		case "visited":
			// visited(N, k): has the range over a map that drives loop N produced key k so far?
			e.nargs(n, 2)
			lit, ok := n.Args[0].(*ast.BasicLit)
			if !ok {
				e.fail("visited(N, key): N must be a loop ordinal literal")
			}
			ord, _ := strconv.Atoi(lit.Value)
			var rg *ssa.Range
			for _, li := range t.loops {
				if li.ordinal != ord {
					continue
				}
				for _, in := range li.header.Instrs {
					if nx, ok := in.(*ssa.Next); ok {
						if r, ok := nx.Iter.(*ssa.Range); ok {
							rg = r
						}
					}
				}
			}
			if rg == nil {
				dbg := ""
				for _, li := range t.loops {
					dbg += fmt.Sprintf(" [loop %d header b%d]", li.ordinal, li.header.Index)
				}
				// the loop the clause was written for is gone or is no longer a
				// range over a map: the clause is stale (undecided, never an alarm)
				e.fail("stale identifier: visited(%d, ..): loop %d is not a range over a map;%s", ord, ord, dbg)
			}
			comp, srt, _, has := t.rangeVisited(rg)
			if !has {
				e.fail("visited(%d, ..): unsupported key type", ord)
			}
			mt := rg.X.Type().Underlying().(*types.Map)
			kv := e.eval(n.Args[1])
			if kv.T != nil && t.mode.scalarSort(kv.T) != "" && t.mode.scalarSort(kv.T) != t.mode.scalarSort(mt.Key()) {
				// loop N ranges over a map with another key type than the clause
				// speaks about: it is not the loop the clause was written for
				e.fail("stale identifier: visited(%d, ..): loop %d ranges over a map keyed by %s", ord, ord, mt.Key())
			}
			k := t.materialize(kv, mt.Key())
			if k.K != VScalar {
				e.fail("visited: key is not a scalar")
			}
			return scalar(bt, sx("select", t.heapGet(e.st, comp, srt), k.S))
		case "disjoint":
			// disjoint(a, b): two slices live in different backing arrays
			e.nargs(n, 2)
			a, b := e.eval(n.Args[0]), e.eval(n.Args[1])
			if a.K != VSlice || b.K != VSlice {
				e.fail("disjoint needs slices")
			}
			// (a nil slice has no backing array and shares one with nothing)
			return scalar(bt, or(eq(a.Sub[0].S, "0"), eq(b.Sub[0].S, "0"), not(eq(a.Sub[0].S, b.Sub[0].S))))
		case "ghost":
			return e.ghost(n)
		case "ghostat":
			return e.ghostat(n)
		case "clz64", "ctz64":
			e.nargs(n, 1)
			v := t.materialize(e.eval(n.Args[0]), types.Typ[types.Uint64])
			if v.K != VScalar || !t.mode.isBV() {
				e.fail("clz64/ctz64 need a bit-vector uint64")
			}
			// binary-search encoding (6 steps) of count-leading / count-trailing zeros
			x := v.S
			zero64 := t.mode.intLit64(0, 64)
			n := t.mode.intLit64(0, 8)
			steps := []int{32, 16, 8, 4, 2, 1}
			for _, w := range steps {
				var test, shifted string
				wl := t.mode.intLit64(int64(w), 64)
				if id.Name == "clz64" {
					// top w bits zero?
					test = eq(sx("bvlshr", x, t.mode.intLit64(int64(64-w), 64)), zero64)
					shifted = sx("bvshl", x, wl)
				} else {
					test = eq(sx("bvshl", x, t.mode.intLit64(int64(64-w), 64)), zero64)
					shifted = sx("bvlshr", x, wl)
				}
				tn := t.define("czn", t.mode.intSort(8), ite(test, sx("bvadd", n, t.mode.intLit64(int64(w), 8)), n))
				tx := t.define("czx", t.mode.intSort(64), ite(test, shifted, x))
				n, x = tn, tx
			}
			res := ite(eq(v.S, zero64), t.mode.intLit64(64, 8), n)
			return scalar(types.Typ[types.Uint8], res)
		case "uf":
			return e.uf(n)
		}
		if sp := t.W.specs[id.Name]; sp != nil {
			ne := e.specEnv(sp, n)
			if sp.Result == "bool" {
				return scalar(bt, ne.boolTerm(sp.Body))
			}
			r := ne.eval(sp.Body)
			if ty := t.W.resolveType(sp.Result, e.pkg, sp.Pkg); ty != nil {
				r = t.materialize(r, ty)
				if r.K == VScalar {
					r.T = ty
				}
			}
			return r
		}
	}
	// pkg.Type(x) conversions of named integer types
	if ty := e.namedType(n.Fun); ty != nil && len(n.Args) == 1 {
		r := t.convert(e.eval(n.Args[0]), ty)
		if r.K == VUnknown {
			e.fail("conversion %s not expressible", exprString(n))
		}
		return r
	}
	e.fail("unsupported call %s in contract expression", exprString(n.Fun))
	return Val{}
}

func (e *Env) namedType(x ast.Expr) types.Type {
	switch f := x.(type) {
	case *ast.Ident:
		if e.pkg != nil {
			if tn, ok := e.pkg.Scope().Lookup(f.Name).(*types.TypeName); ok {
				return tn.Type()
			}
		}
	case *ast.SelectorExpr:
		if id, ok := f.X.(*ast.Ident); ok && e.pkg != nil {
			if p := e.t.W.importedPkg(e.pkg, id.Name); p != nil {
				if tn, ok := p.Scope().Lookup(f.Sel.Name).(*types.TypeName); ok {
					return tn.Type()
				}
			}
		}
	}
	return nil
}

// ghost(obj, "name"): model field of an object.  The sort is taken from the
// declaration `ghost` in the World table (default Int/idx).
func (e *Env) ghost(n *ast.CallExpr) Val {
	e.nargs(n, 2)
	t := e.t
	o := e.eval(n.Args[0])
	if o.K == VConst {
		o = scalar(nil, "0")
	}
	lit, ok := n.Args[1].(*ast.BasicLit)
	if !ok || o.K != VScalar {
		e.fail("ghost(obj, \"field\") expects an object reference and a string literal")
	}
	name, _ := strconv.Unquote(lit.Value)
	gt := t.W.ghostType(name)
	srt := t.mode.scalarSort(gt)
	arr := t.heapGet(e.st, "G."+name, arraySort("Int", srt))
	return scalar(gt, sx("select", arr, o.S))
}

// ghostat(obj, idx, "name"): element idx of a ghost sequence attached to obj.
func (e *Env) ghostat(n *ast.CallExpr) Val {
	e.nargs(n, 3)
	t := e.t
	o := e.eval(n.Args[0])
	if o.K == VConst {
		o = scalar(nil, "0")
	}
	if o.K == VScalar && o.T != nil {
		// an integer-valued ghost (stream id) may be used as the object
		if _, _, isInt := intInfo(o.T); isInt && t.mode.isBV() {
			o = scalar(nil, sx("bv2nat", o.S))
		}
	}
	i, ok := t.toIdx(e.eval(n.Args[1]))
	lit, ok2 := n.Args[2].(*ast.BasicLit)
	if !ok || !ok2 || o.K != VScalar {
		e.fail("ghostat(obj, index, \"name\") expects an object, an integer index and a string literal")
	}
	name, _ := strconv.Unquote(lit.Value)
	gt := t.W.ghostType(name)
	srt := arraySort("Int", arraySort(t.mode.idxSort(), t.mode.scalarSort(gt)))
	arr := t.heapGet(e.st, "GA."+name, srt)
	return scalar(gt, sx("select", sx("select", arr, o.S), i))
}

// uf("name", args...) : uninterpreted function over scalar arguments with a
// boolean or integer result: ufb(...) / ufi(...)
func (e *Env) uf(n *ast.CallExpr) Val {
	t := e.t
	if len(n.Args) < 2 {
		e.fail("uf needs a name, a result type and arguments")
	}
	lit, ok := n.Args[0].(*ast.BasicLit)
	if !ok {
		e.fail("uf name must be a string literal")
	}
	name, _ := strconv.Unquote(lit.Value)
	rtName := exprString(n.Args[1])
	rt, ok := convNames[rtName]
	if !ok {
		if nt := e.namedType(n.Args[1]); nt != nil && t.mode.scalarSort(nt) != "" {
			rt, ok = nt, true
		}
	}
	if !ok {
		e.fail("uf result type %s unknown", rtName)
	}
	var args, sorts []string
	for _, a := range n.Args[2:] {
		v := e.eval(a)
		if v.K == VConst {
			v = t.materialize(v, v.T)
		}
		if v.K == VSlice {
			// a slice argument is identified by its header (base, offset, length);
			// sound as long as the bytes are not written between the uses
			for i := 0; i < 3; i++ {
				args = append(args, v.Sub[i].S)
				if i == 0 {
					sorts = append(sorts, "Int")
				} else {
					sorts = append(sorts, t.mode.idxSort())
				}
			}
			continue
		}
		if v.K != VScalar {
			e.fail("uf argument %s is not a scalar", exprString(a))
		}
		args = append(args, v.S)
		sorts = append(sorts, t.mode.scalarSort(v.T))
	}
	f := t.declareFun("uf."+sanitize(name)+"."+strings.ReplaceAll(compSortSuffix(strings.Join(sorts, "_")), "__", "_"), sorts, t.mode.scalarSort(rt))
	return scalar(rt, sx(f, args...))
}

func sortStrings(a []string) {
	for i := 1; i < len(a); i++ {
		for j := i; j > 0 && a[j] < a[j-1]; j-- {
			a[j], a[j-1] = a[j-1], a[j]
		}
	}
}

// typeOfExpr resolves a type written in a contract expression: basic and named
// types, pointers to and slices of those (e.g. *[]byte).
func (e *Env) typeOfExpr(x ast.Expr) types.Type {
	switch n := x.(type) {
	case *ast.Ident:
		// predeclared names keep their spelling (byte and uint8 are identical
		// types with different names; type tags are keyed by the printed type)
		if tn, ok := types.Universe.Lookup(n.Name).(*types.TypeName); ok {
			return tn.Type()
		}
		if bt, ok := convNames[n.Name]; ok {
			return bt
		}
		return e.namedType(n)
	case *ast.SelectorExpr:
		return e.namedType(n)
	case *ast.StarExpr:
		if el := e.typeOfExpr(n.X); el != nil {
			return types.NewPointer(el)
		}
	case *ast.ArrayType:
		if n.Len == nil {
			if el := e.typeOfExpr(n.Elt); el != nil {
				return types.NewSlice(el)
			}
		}
	case *ast.ParenExpr:
		return e.typeOfExpr(n.X)
	}
	return nil
}
