package main

import (
	"fmt"
	"go/ast"
	"go/token"
	"go/types"
	"strings"

	"golang.org/x/tools/go/ssa"
)

func (t *FnTrans) instr(b *ssa.BasicBlock, idx int, in ssa.Instruction, st *HeapState, reach string) {
	t.curSt = st
	switch x := in.(type) {
	case *ssa.DebugRef:
		return
	case *ssa.Phi:
		return // handled at block entry
	case *ssa.Alloc:
		t.alloc(x, st, reach)
	case *ssa.BinOp:
		a, bb := t.val(x.X), t.val(x.Y)
		if x.Op == token.QUO || x.Op == token.REM {
			if _, _, ok := intInfo(x.X.Type()); ok {
				d := t.materialize(bb, x.Y.Type())
				if d.K == VScalar {
					w, _, _ := intInfo(x.Y.Type())
					t.safety("div0", x.Pos(), reach, not(eq(d.S, t.mode.intLit64(0, w))))
				}
			}
		}
		if x.Op == token.SHL || x.Op == token.SHR {
			if _, s, ok := intInfo(x.Y.Type()); ok && s {
				d := t.materialize(bb, x.Y.Type())
				if d.K == VScalar {
					w, _, _ := intInfo(x.Y.Type())
					t.safety("shift", x.Pos(), reach, t.cmpT(">=", d.S, t.mode.intLit64(0, w), true))
				}
			}
		}
		r := t.binop(x.Op, a, bb)
		r.T = x.Type()
		t.setVal(x, t.materialize(r, x.Type()))
	case *ssa.UnOp:
		t.unopInstr(x, st, reach)
	case *ssa.Convert:
		t.convertInstr(x, st, reach)
	case *ssa.ChangeType:
		v := t.val(x.X)
		v = t.materialize(v, x.Type())
		v.T = x.Type()
		t.setVal(x, v)
	case *ssa.ChangeInterface:
		v := t.val(x.X)
		v.T = x.Type()
		t.setVal(x, v)
	case *ssa.MakeInterface:
		t.makeInterface(x, reach)
	case *ssa.TypeAssert:
		t.typeAssert(x, reach)
	case *ssa.Extract:
		tv := t.val(x.Tuple)
		if tv.K == VTuple && x.Index < len(tv.Sub) {
			t.setVal(x, tv.Sub[x.Index])
		} else {
			t.setVal(x, t.havocVal(x.Type(), "extract"))
		}
	case *ssa.Field:
		sv := t.val(x.X)
		if sv.K == VStruct && x.Field < len(sv.Sub) {
			t.setVal(x, sv.Sub[x.Field])
		} else {
			t.setVal(x, t.havocVal(x.Type(), "field"))
		}
	case *ssa.FieldAddr:
		t.fieldAddr(x, reach)
	case *ssa.IndexAddr:
		// site index <text>: hook BEFORE the element is addressed (and before the
		// "no panic at an earlier index" assumption that follows it)
		t.siteHook("index", x, b, idx, st, reach)
		t.indexAddr(x, st, reach)
	case *ssa.Index:
		t.siteHook("index", x, b, idx, st, reach)
		t.indexInstr(x, reach)
	case *ssa.Lookup:
		t.lookup(x, st, reach)
		t.siteHook("mapread", x, b, idx+1, st, reach)
	case *ssa.Slice:
		t.sliceInstr(x, st, reach)
	case *ssa.MakeSlice:
		t.siteHook("call", x, b, idx, st, reach)
		t.makeSlice(x, st, reach)
	case *ssa.MakeMap:
		t.siteHook("call", x, b, idx, st, reach)
		t.makeMap(x, st, reach)
	case *ssa.MapUpdate:
		t.mapUpdate(x, st, reach, b, idx)
	case *ssa.Store:
		t.siteHook("store", x, b, idx, st, reach)
		t.storeInstr(x, st, reach)
	case *ssa.Call:
		t.siteHook("call", x, b, idx, st, reach)
		t.call(x, x.Common(), st, reach, b, idx)
		t.siteHook("callret", x, b, idx+1, st, reach)
	case *ssa.Defer:
		t.deferred = append(t.deferred, x)
	case *ssa.RunDefers:
		for i := len(t.deferred) - 1; i >= 0; i-- {
			d := t.deferred[i]
			// a defer statement on a branch that cannot lead to this return did not run
			if !blockReaches(d.Block(), b) {
				continue
			}
			callee := d.Common().StaticCallee()
			// straight-line closure executed on every path to this return: inline it
			if mc, ok := d.Common().Value.(*ssa.MakeClosure); ok && d.Block().Dominates(b) && len(d.Common().Args) == 0 {
				if fn, ok := mc.Fn.(*ssa.Function); ok && inlinableClosure(fn) {
					for k, fv := range fn.FreeVars {
						t.vals[fv] = t.val(mc.Bindings[k])
					}
					for k, in2 := range fn.Blocks[0].Instrs {
						if _, isRet := in2.(*ssa.Return); isRet {
							break
						}
						t.instr(fn.Blocks[0], k, in2, st, reach)
					}
					continue
				}
			}
			if callee != nil && (t.W.isPureFrame(callee) || t.W.intrinsicPure(callee)) {
				continue
			}
			if callee != nil && len(callee.Blocks) > 0 && isRecoverOnly(callee) {
				continue
			}
			t.note("deferred call with possible effects: heap havocked at function exit")
			// (ghost instrumentation changes only where a contract sets it)
			ns := t.havocAllKeepGhost(st)
			dfn := callee
			if mc, ok := d.Common().Value.(*ssa.MakeClosure); ok {
				if f, ok := mc.Fn.(*ssa.Function); ok {
					dfn = f
				}
			}
			if dfn != nil {
				for _, gn := range t.W.ghostWrites(dfn, map[*ssa.Function]bool{}) {
					for _, comp := range []string{"G." + gn, "GA." + gn} {
						if srt, ok := t.compSorts[comp]; ok {
							ns.cur[comp] = t.declare(t.fresh("H."+comp+"!defer"), srt)
						}
					}
				}
			} else {
				ns = t.havocAll(st)
			}
			t.replaceState(st, ns)
		}
	case *ssa.Go, *ssa.Send, *ssa.Select:
		t.note("concurrency instruction %T: heap havocked", in)
		// ghost instrumentation is changed only where a contract sets it: the
		// ghosts of the function started by a go statement (transitively) are
		// havocked, all others survive
		ns := t.havocAllKeepGhost(st)
		if g, ok := in.(*ssa.Go); ok {
			if callee := g.Common().StaticCallee(); callee != nil {
				for _, gn := range t.W.ghostWrites(callee, map[*ssa.Function]bool{}) {
					for _, comp := range []string{"G." + gn, "GA." + gn} {
						if srt, ok := t.compSorts[comp]; ok {
							ns.cur[comp] = t.declare(t.fresh("H."+comp+"!go"), srt)
						}
					}
				}
			} else {
				ns = t.havocAll(st)
			}
		}
		t.replaceState(st, ns)
		if v, ok := in.(ssa.Value); ok {
			t.setVal(v, t.havocVal(v.Type(), "conc"))
		}
	case *ssa.Range:
		t.setVal(x, unknown(x.Type()))
		// ranging over a map: the set of keys produced so far starts empty, and
		// nothing has been inserted into the ranged map yet
		if comp, srt, _, ok := t.rangeVisited(x); ok {
			t.heapSet(st, comp, srt, sx("(as const "+srt+")", "false"))
			tcomp := strings.Replace(comp, "G.V.", "G.VT.", 1)
			tsrt := arraySort("Int", "Bool")
			t.heapSet(st, tcomp, tsrt, sx("(as const "+tsrt+")", "false"))
			if t.rangeMapRef == nil {
				t.rangeMapRef = map[*ssa.Range]string{}
			}
			if m := t.val(x.X); m.K == VScalar {
				t.rangeMapRef[x] = m.S
			}
		}
	case *ssa.Next:
		nv := t.havocVal(x.Type(), "next")
		t.setVal(x, nv)
		// ranging over a map: a produced key is present in the map at that moment
		if rg, ok := x.Iter.(*ssa.Range); ok && !x.IsString && nv.K == VTuple && len(nv.Sub) == 3 {
			if mt, ok := rg.X.Type().Underlying().(*types.Map); ok {
				m := t.val(rg.X)
				if m.K == VScalar && nv.Sub[0].K == VScalar && nv.Sub[1].K == VScalar {
					mv, present := t.mapRead(st, mt, m.S, nv.Sub[1].S, reach)
					t.assume(reach, implies(nv.Sub[0].S, present), "a key produced by ranging over a map is present in it")
					t.visitKey(rg, mt, m.S, nv.Sub[0].S, nv.Sub[1].S, st, reach)
					// ... and the value produced with it is the value stored under that key
					if nv.Sub[2].K == VScalar && mv.K == VScalar {
						t.assume(reach, implies(nv.Sub[0].S, eq(nv.Sub[2].S, mv.S)), "the value produced by ranging over a map is the value stored under the produced key")
					} else if nv.Sub[2].K == VSlice && mv.K == VSlice && len(mv.Sub) == 4 {
						var eqs []string
						for k := 0; k < 4; k++ {
							eqs = append(eqs, eq(nv.Sub[2].Sub[k].S, mv.Sub[k].S))
						}
						t.assume(reach, implies(nv.Sub[0].S, and(eqs...)), "the value produced by ranging over a map is the value stored under the produced key")
					}
				}
			}
		}
	case *ssa.MakeClosure:
		t.setVal(x, Val{K: VFunc, T: x.Type(), Fn: x})
	case *ssa.MakeChan:
		t.setVal(x, t.havocVal(x.Type(), "chan"))
	case *ssa.SliceToArrayPointer, *ssa.MultiConvert:
		v := in.(ssa.Value)
		t.setVal(v, t.havocVal(v.Type(), "conv"))
	case *ssa.If:
		c := t.materialize(t.val(x.Cond), types.Typ[types.Bool])
		cs := c.S
		if c.K != VScalar {
			cs = t.declare(t.fresh("cond"), "Bool")
		}
		cs = t.define(fmt.Sprintf("c.%d", b.Index), "Bool", cs)
		t.edge(b, b.Succs[0], and(reach, cs), st)
		t.edge(b, b.Succs[1], and(reach, not(cs)), st)
	case *ssa.Jump:
		t.edge(b, b.Succs[0], reach, st)
	case *ssa.Return:
		t.siteHook("return", x, b, idx, st, reach)
		t.returnInstr(x, st, reach, b, idx)
	case *ssa.Panic:
		if t.con != nil && t.con.Safe {
			t.addObl("panic", t.srcText(x.Pos()), reach, Formula{Raw: "false"}, x.Pos(), "")
		}
		t.assume(reach, "false", "explicit panic ends the path")
	default:
		t.note("instruction %T not modelled: result havocked", in)
		if v, ok := in.(ssa.Value); ok {
			t.setVal(v, t.havocVal(v.Type(), "unmodelled"))
		}
	}
}

// blockReaches: is there a control-flow path from a to b (a == b counts)?
func blockReaches(a, b *ssa.BasicBlock) bool {
	if a == nil || b == nil {
		return true
	}
	seen := map[*ssa.BasicBlock]bool{}
	var dfs func(x *ssa.BasicBlock) bool
	dfs = func(x *ssa.BasicBlock) bool {
		if x == b {
			return true
		}
		if seen[x] {
			return false
		}
		seen[x] = true
		for _, s := range x.Succs {
			if dfs(s) {
				return true
			}
		}
		return false
	}
	return dfs(a)
}

// inlinableClosure: one basic block of loads, address computations and stores
// (e.g. `func() { x.f = nil }`), no calls, no parameters.
func inlinableClosure(fn *ssa.Function) bool {
	if len(fn.Blocks) != 1 || len(fn.Params) != 0 {
		return false
	}
	for _, in := range fn.Blocks[0].Instrs {
		switch in.(type) {
		case *ssa.UnOp, *ssa.FieldAddr, *ssa.IndexAddr, *ssa.Store, *ssa.Return, *ssa.DebugRef, *ssa.BinOp, *ssa.Convert, *ssa.ChangeType:
		default:
			return false
		}
	}
	return true
}

func isRecoverOnly(fn *ssa.Function) bool {
	// closures of the form `func() { if r := recover(); r != nil {...log...} }` are treated as effect free
	for _, b := range fn.Blocks {
		for _, in := range b.Instrs {
			switch x := in.(type) {
			case *ssa.Store, *ssa.MapUpdate, *ssa.Go, *ssa.Send:
				_ = x
				return false
			}
		}
	}
	return true
}

func (t *FnTrans) replaceState(st *HeapState, ns *HeapState) {
	*st = *ns
}

func (t *FnTrans) cmpT(op, a, b string, signed bool) string {
	if t.mode.isInt() {
		return sx(op, a, b)
	}
	var m map[string]string
	if signed {
		m = map[string]string{"<": "bvslt", "<=": "bvsle", ">": "bvsgt", ">=": "bvsge"}
	} else {
		m = map[string]string{"<": "bvult", "<=": "bvule", ">": "bvugt", ">=": "bvuge"}
	}
	return sx(m[op], a, b)
}

func (t *FnTrans) edge(from, to *ssa.BasicBlock, cond string, st *HeapState) {
	key := [2]int{from.Index, to.Index}
	if t.backEdge[key] {
		li := t.loops[to]
		if li != nil && li.spec != nil {
			subst := map[ssa.Value]Val{}
			for _, in := range to.Instrs {
				phi, ok := in.(*ssa.Phi)
				if !ok {
					break
				}
				for j, bp := range to.Preds {
					if bp == from {
						subst[phi] = t.val(phi.Edges[j])
						break
					}
				}
			}
			env := t.pointEnv(to, t.firstNonPhi(to), st.clone(), subst)
			env.guard = cond
			for _, c := range li.spec.Invariants {
				lbl := c.Label
				if lbl == "" {
					lbl = normText(c.Text)
				}
				t.addObl("inv-step", fmt.Sprintf("loop%d:%s", li.ordinal, lbl), cond, Formula{Clause: c, Env: env}, token.NoPos, c.Text)
			}
			if li.spec.Decreases != nil && li.decHead != "" {
				// termination: on every way back to the loop head the measure is
				// smaller than it was at the head, and it was not negative there
				func() {
					defer func() {
						if r := recover(); r != nil {
							if _, ok := r.(*exprError); ok {
								return
							}
							panic(r)
						}
					}()
					if term, ok := t.toIdx(env.eval(li.spec.Decreases.Expr)); ok {
						z := t.mode.intLit64(0, 64)
						t.addObl("decreases", fmt.Sprintf("loop%d", li.ordinal), cond, Formula{Raw: and(t.cmpIdx("<", term, li.decHead), t.cmpIdx(">=", li.decHead, z))}, token.NoPos, li.spec.Decreases.Text)
					}
				}()
			}
		}
		return
	}
	if old, ok := t.edgeCond[key]; ok {
		t.edgeCond[key] = or(old, cond)
	} else {
		t.edgeCond[key] = cond
	}
}

func (t *FnTrans) alloc(x *ssa.Alloc, st *HeapState, reach string) {
	name := t.allocRef("alloc." + x.Comment)
	if t.privateAlloc[x] && t.loopDepth(x.Block()) == 0 {
		t.privateRefs[name] = true
	}
	el := x.Type().Underlying().(*types.Pointer).Elem()
	// zero-initialise
	t.store(st, t.cellLoc(el, name), t.zeroVal(el))
	t.setVal(x, scalar(x.Type(), name))
}

func (t *FnTrans) nilCheck(pos token.Pos, reach, ref string) {
	if ref == "0" {
		t.safety("nil", pos, reach, "false")
		return
	}
	t.safety("nil", pos, reach, not(eq(ref, "0")))
}

// nilCheckOf is nilCheck for a dereference of the SSA value v.  In a function
// that is not `safe`, dereferences are normally assumed not to panic; but when
// v is directly the pointer result of a call whose contract says when that
// result is nil, the contract decides the dereference, and assuming it away
// would make the path on which the callee returned nil silently infeasible
// (everything after it vacuous).  Such a dereference is an obligation.
func (t *FnTrans) nilCheckOf(v ssa.Value, pos token.Pos, reach, ref string) {
	if t.con != nil && !t.con.Safe && ref != "0" && t.calleeContractSpeaksOfNil(v) {
		t.addObl("nil-callee-result", t.srcText(pos), reach, Formula{Raw: not(eq(ref, "0"))}, pos, "dereference of a call result that the callee's contract allows to be nil")
	}
	t.nilCheck(pos, reach, ref)
}

func (t *FnTrans) calleeContractSpeaksOfNil(v ssa.Value) bool {
	idx := 0
	var call *ssa.Call
	switch x := v.(type) {
	case *ssa.Extract:
		c, ok := x.Tuple.(*ssa.Call)
		if !ok {
			return false
		}
		call, idx = c, x.Index
	case *ssa.Call:
		call = x
	default:
		return false
	}
	callee := call.Call.StaticCallee()
	if callee == nil {
		return false
	}
	con := t.W.contractForView(callee, t.view())
	if con == nil {
		return false
	}
	names := []string{fmt.Sprintf("result%d", idx)}
	if idx == 0 {
		names = append(names, "result")
	}
	for _, c := range con.Ensures {
		txt := normText(c.Text)
		for _, n := range names {
			if strings.Contains(txt, n+"==nil") || strings.Contains(txt, n+"!=nil") {
				return true
			}
		}
	}
	return false
}

// locOf resolves a pointer value to a location of the pointee type.
func (t *FnTrans) locOf(p Val, ptrT types.Type) (*Loc, bool) {
	switch p.K {
	case VAddr:
		return p.L, true
	case VScalar:
		pt, ok := ptrT.Underlying().(*types.Pointer)
		if !ok {
			return nil, false
		}
		return t.cellLoc(pt.Elem(), p.S), true
	}
	return nil, false
}

func (t *FnTrans) unopInstr(x *ssa.UnOp, st *HeapState, reach string) {
	switch x.Op {
	case token.MUL: // load
		if g, ok := x.X.(*ssa.Global); ok {
			if cg := t.W.constGlobalOf(g); cg != nil {
				t.setVal(x, t.constGlobalVal(g, cg, x.Type()))
				return
			}
		}
		p := t.val(x.X)
		l, ok := t.locOf(p, x.X.Type())
		if !ok {
			t.setVal(x, t.havocVal(x.Type(), "load"))
			return
		}
		if p.K == VScalar && !interiorOrLocal(x.X) {
			t.nilCheckOf(x.X, x.Pos(), reach, p.S)
		}
		lv := t.load(st, l, reach)
		if g, ok := x.X.(*ssa.Global); ok && lv.K == VScalar && t.W.nonNilErrorGlobal(g) {
			t.declare("iface.nil", "Iface")
			t.assume(reach, not(eq(lv.S, "iface.nil")), "package-level error value "+g.Name()+" is never nil")
			t.globalsUsed[g.Pkg.Pkg.Name()+"."+g.Name()+" (non-nil error)"] = true
		}
		t.setVal(x, lv)
	case token.ARROW:
		t.note("channel receive: heap havocked")
		t.replaceState(st, t.havocAll(st))
		t.setVal(x, t.havocVal(x.Type(), "recv"))
	default:
		r := t.unop(x.Op, t.val(x.X))
		t.setVal(x, t.materialize(r, x.Type()))
	}
}

// rootIsLocal: the address is derived from an allocation made by this function.
func rootIsLocal(v ssa.Value) bool {
	for i := 0; i < 20; i++ {
		switch a := v.(type) {
		case *ssa.Alloc, *ssa.MakeSlice, *ssa.MakeMap:
			return true
		case *ssa.FieldAddr:
			v = a.X
		case *ssa.IndexAddr:
			v = a.X
		case *ssa.Slice:
			v = a.X
		default:
			return false
		}
	}
	return false
}

// frameCheck: a function declared `pure` must not write memory it did not allocate.
func (t *FnTrans) frameCheck(what string, pos token.Pos, reach string) {
	if t.con != nil && t.con.Pure && !t.con.Assumed {
		t.addObl("frame", what, reach, Formula{Raw: "false"}, pos, "pure function writes caller-visible memory")
	}
}

func (t *FnTrans) storeInstr(x *ssa.Store, st *HeapState, reach string) {
	if !rootIsLocal(x.Addr) {
		t.frameCheck("store:"+t.srcText(x.Pos()), x.Pos(), reach)
		if t.allowedMods != nil {
			for _, c := range t.addrComps(x.Addr) {
				if !t.allowedMods[c] {
					t.addObl("frame", "store-outside-modifies:"+c, reach, Formula{Raw: "false"}, x.Pos(), "store to a heap component that is not in the modifies list")
				}
			}
		}
	}
	p := t.val(x.Addr)
	l, ok := t.locOf(p, x.Addr.Type())
	if !ok {
		t.note("store through an unmodelled pointer: heap havocked")
		t.replaceState(st, t.havocAll(st))
		return
	}
	if p.K == VScalar && !interiorOrLocal(x.Addr) {
		t.nilCheckOf(x.Addr, x.Pos(), reach, p.S)
	}
	t.store(st, l, t.val(x.Val))
}

func (t *FnTrans) fieldAddr(x *ssa.FieldAddr, reach string) {
	p := t.val(x.X)
	if p.K != VScalar {
		t.setVal(x, unknown(x.Type()))
		return
	}
	if !interiorOrLocal(x.X) {
		t.nilCheckOf(x.X, x.Pos(), reach, p.S)
	}
	st := x.X.Type().Underlying().(*types.Pointer).Elem()
	l := t.fieldLoc(st, x.Field, p.S)
	if isStructOrArray(l.T) {
		t.setVal(x, scalar(x.Type(), t.subRef(l)))
		return
	}
	t.vals[x] = Val{K: VAddr, T: x.Type(), L: l}
}

// interiorOrLocal: pointers that cannot be nil (address of a field/element of
// a checked object, or a local allocation).
func interiorOrLocal(v ssa.Value) bool {
	switch v.(type) {
	case *ssa.Alloc, *ssa.FieldAddr, *ssa.IndexAddr, *ssa.Global:
		return true
	}
	return false
}

func (t *FnTrans) boundsCond(idx, n string) string {
	z := t.mode.intLit64(0, 64)
	return and(t.cmpIdx("<=", z, idx), t.cmpIdx("<", idx, n))
}

func (t *FnTrans) indexAddr(x *ssa.IndexAddr, st *HeapState, reach string) {
	base := t.val(x.X)
	i, ok := t.toIdx(t.val(x.Index))
	if !ok {
		i = t.declare(t.fresh("idx"), t.mode.idxSort())
	}
	var baseRef, elemIdx, n string
	var elemT types.Type
	switch bt := x.X.Type().Underlying().(type) {
	case *types.Slice:
		if base.K != VSlice {
			t.setVal(x, unknown(x.Type()))
			return
		}
		baseRef, n = base.Sub[0].S, base.Sub[2].S
		elemIdx = t.addIdx(base.Sub[1].S, i)
		elemT = bt.Elem()
	case *types.Pointer:
		at := bt.Elem().Underlying().(*types.Array)
		if base.K != VScalar {
			t.setVal(x, unknown(x.Type()))
			return
		}
		if !interiorOrLocal(x.X) {
			t.nilCheck(x.Pos(), reach, base.S)
		}
		baseRef, n = base.S, t.mode.intLit64(at.Len(), 64)
		elemIdx = i
		elemT = at.Elem()
	default:
		t.setVal(x, unknown(x.Type()))
		return
	}
	t.safety("bounds", x.Pos(), reach, t.boundsCond(i, n))
	elemIdx = t.define("ix", t.mode.idxSort(), elemIdx)
	t.idxTerms[i] = true
	l := t.elemLoc(elemT, baseRef, elemIdx)
	if isStructOrArray(elemT) {
		t.setVal(x, scalar(x.Type(), t.subRef(l)))
		return
	}
	t.vals[x] = Val{K: VAddr, T: x.Type(), L: l}
}

func (t *FnTrans) indexInstr(x *ssa.Index, reach string) {
	base := t.val(x.X)
	i, ok := t.toIdx(t.val(x.Index))
	if !ok {
		t.setVal(x, t.havocVal(x.Type(), "index"))
		return
	}
	switch bt := x.X.Type().Underlying().(type) {
	case *types.Array:
		t.safety("bounds", x.Pos(), reach, t.boundsCond(i, t.mode.intLit64(bt.Len(), 64)))
		if base.K == VArray {
			t.setVal(x, scalar(x.Type(), sx("select", base.S, i)))
			return
		}
	case *types.Basic: // string
		if base.K == VScalar {
			t.safety("bounds", x.Pos(), reach, t.boundsCond(i, sx(t.strLen(), base.S)))
			f := t.declareFun("gstr.at", []string{"Str", t.mode.idxSort()}, t.mode.intSort(8))
			v := scalar(x.Type(), sx(f, base.S, i))
			t.assume(reach, t.typeAssume(v), "byte range")
			t.setVal(x, v)
			return
		}
	}
	t.setVal(x, t.havocVal(x.Type(), "index"))
}

func (t *FnTrans) sliceInstr(x *ssa.Slice, st *HeapState, reach string) {
	base := t.val(x.X)
	z := t.mode.intLit64(0, 64)
	get := func(v ssa.Value, def string) string {
		if v == nil {
			return def
		}
		s, ok := t.toIdx(t.val(v))
		if !ok {
			return t.declare(t.fresh("sl"), t.mode.idxSort())
		}
		if !strings.Contains(s, " ") || len(s) < 200 {
			t.idxTerms[s] = true // slice bounds are natural instantiation points
		}
		return s
	}
	switch bt := x.X.Type().Underlying().(type) {
	case *types.Slice:
		if base.K != VSlice {
			t.setVal(x, t.havocVal(x.Type(), "slice"))
			return
		}
		lo := get(x.Low, z)
		hi := get(x.High, base.Sub[2].S)
		mx := get(x.Max, base.Sub[3].S)
		// 0 <= lo <= hi <= max <= cap
		t.safety("slice", x.Pos(), reach, and(t.cmpIdx("<=", z, lo), t.cmpIdx("<=", lo, hi), t.cmpIdx("<=", hi, mx), t.cmpIdx("<=", mx, base.Sub[3].S)))
		r := Val{K: VSlice, T: x.Type(), Sub: []Val{base.Sub[0], scalar(nil, t.addIdx(base.Sub[1].S, lo)), scalar(nil, t.subIdx(hi, lo)), scalar(nil, t.subIdx(mx, lo))}}
		t.setVal(x, r)
	case *types.Pointer:
		at, ok := bt.Elem().Underlying().(*types.Array)
		if !ok || base.K != VScalar {
			t.setVal(x, t.havocVal(x.Type(), "slice"))
			return
		}
		n := t.mode.intLit64(at.Len(), 64)
		lo := get(x.Low, z)
		hi := get(x.High, n)
		mx := get(x.Max, n)
		if !interiorOrLocal(x.X) {
			t.nilCheck(x.Pos(), reach, base.S)
		}
		t.safety("slice", x.Pos(), reach, and(t.cmpIdx("<=", z, lo), t.cmpIdx("<=", lo, hi), t.cmpIdx("<=", hi, mx), t.cmpIdx("<=", mx, n)))
		r := Val{K: VSlice, T: x.Type(), Sub: []Val{scalar(nil, base.S), scalar(nil, lo), scalar(nil, t.subIdx(hi, lo)), scalar(nil, t.subIdx(mx, lo))}}
		t.setVal(x, r)
	case *types.Basic: // string
		if base.K != VScalar {
			t.setVal(x, t.havocVal(x.Type(), "strslice"))
			return
		}
		ln := sx(t.strLen(), base.S)
		lo := get(x.Low, z)
		hi := get(x.High, ln)
		t.safety("slice", x.Pos(), reach, and(t.cmpIdx("<=", z, lo), t.cmpIdx("<=", lo, hi), t.cmpIdx("<=", hi, ln)))
		f := t.declareFun("gstr.sub", []string{"Str", t.mode.idxSort(), t.mode.idxSort()}, "Str")
		r := sx(f, base.S, lo, hi)
		t.assume(reach, eq(sx(t.strLen(), r), t.subIdx(hi, lo)), "len(s[lo:hi]) == hi-lo")
		t.setVal(x, scalar(x.Type(), r))
	default:
		t.setVal(x, t.havocVal(x.Type(), "slice"))
	}
}

func (t *FnTrans) makeSlice(x *ssa.MakeSlice, st *HeapState, reach string) {
	ln, ok1 := t.toIdx(t.val(x.Len))
	cp, ok2 := t.toIdx(t.val(x.Cap))
	if !ok1 || !ok2 {
		t.setVal(x, t.havocVal(x.Type(), "makeslice"))
		return
	}
	z := t.mode.intLit64(0, 64)
	t.safety("makelen", x.Pos(), reach, and(t.cmpIdx("<=", z, ln), t.cmpIdx("<=", ln, cp)))
	name := t.allocRef("mkslice")
	if t.privateAlloc[x] && t.loopDepth(x.Block()) == 0 {
		t.privateRefs[name] = true
	}
	el := x.Type().Underlying().(*types.Slice).Elem()
	if es := t.mode.scalarSort(el); es != "" {
		comp := "B." + t.sortKey(el)
		srt := arraySort("Int", arraySort(t.mode.idxSort(), es))
		arr := t.heapGet(st, comp, srt)
		zv := t.zeroVal(el)
		if es == "Iface" || es == "Str" {
			// cvc5 accepts only value literals in constant arrays: leave the contents arbitrary
			t.heapSet(st, comp, srt, sx("store", arr, name, t.declare(t.fresh("zeroarr"), arraySort(t.mode.idxSort(), es))))
		} else {
			t.heapSet(st, comp, srt, sx("store", arr, name, sx("(as const "+arraySort(t.mode.idxSort(), es)+")", zv.S)))
		}
	}
	t.setVal(x, Val{K: VSlice, T: x.Type(), Sub: []Val{scalar(nil, name), scalar(nil, z), scalar(nil, ln), scalar(nil, cp)}})
}

func (t *FnTrans) convertInstr(x *ssa.Convert, st *HeapState, reach string) {
	a := t.val(x.X)
	from, to := x.X.Type(), x.Type()
	// string <-> []byte : contents abstracted, length preserved
	if isString(from) {
		if sl, ok := to.Underlying().(*types.Slice); ok {
			r := t.havocVal(to, "bytesOf")
			if a.K == VScalar && r.K == VSlice {
				ln := sx(t.strLen(), a.S)
				t.assume(reach, and(eq(r.Sub[2].S, ln), eq(r.Sub[3].S, ln), eq(r.Sub[1].S, t.mode.intLit64(0, 64))), "len([]byte(s)) == len(s)")
				// content link: bytes equal str.at (instantiated on demand via function)
				if b, ok := sl.Elem().Underlying().(*types.Basic); ok && b.Kind() == types.Uint8 {
					_ = b
				}
			}
			t.setVal(x, r)
			return
		}
	}
	if _, ok := from.Underlying().(*types.Slice); ok && isString(to) {
		r := t.havocVal(to, "stringOf")
		if a.K == VSlice {
			t.assume(reach, eq(sx(t.strLen(), r.S), a.Sub[2].S), "len(string(b)) == len(b)")
		}
		t.setVal(x, r)
		return
	}
	r := t.convert(a, to)
	if r.K == VUnknown {
		t.note("conversion %s -> %s abstracted", from, to)
	}
	t.setVal(x, t.materialize(r, to))
}

func (t *FnTrans) typeTag(ty types.Type) string {
	k := typeKey(ty)
	if _, ok := t.typeTags[k]; !ok {
		t.typeTags[k] = len(t.typeTags) + 1
	}
	return fmt.Sprint(t.typeTags[k])
}

func (t *FnTrans) makeInterface(x *ssa.MakeInterface, reach string) {
	v := t.val(x.X)
	t.declare("iface.nil", "Iface")
	tyOf := t.declareFun("iface.type", []string{"Iface"}, "Int")
	r := t.declare(t.fresh("iface"), "Iface")
	facts := []string{not(eq(r, "iface.nil")), eq(sx(tyOf, r), t.typeTag(x.X.Type()))}
	v = t.materialize(v, x.X.Type())
	if s := t.mode.scalarSort(x.X.Type()); s != "" && v.K == VScalar {
		un := t.declareFun("unbox."+typeKey(x.X.Type()), []string{"Iface"}, s)
		facts = append(facts, eq(sx(un, r), v.S))
	}
	t.assume("true", and(facts...), "boxed interface value")
	t.setVal(x, scalar(x.Type(), r))
}

func (t *FnTrans) typeAssert(x *ssa.TypeAssert, reach string) {
	v := t.val(x.X)
	if v.K != VScalar {
		t.setVal(x, t.havocVal(x.Type(), "typeassert"))
		return
	}
	if _, isIface := x.AssertedType.Underlying().(*types.Interface); isIface {
		if !x.CommaOk {
			t.safety("typeassert", x.Pos(), reach, t.declare(t.fresh("ifaceassert"), "Bool"))
		}
		t.setVal(x, t.havocVal(x.Type(), "typeassert"))
		return
	}
	t.declare("iface.nil", "Iface")
	tyOf := t.declareFun("iface.type", []string{"Iface"}, "Int")
	ok := and(not(eq(v.S, "iface.nil")), eq(sx(tyOf, v.S), t.typeTag(x.AssertedType)))
	var res Val
	if s := t.mode.scalarSort(x.AssertedType); s != "" {
		un := t.declareFun("unbox."+typeKey(x.AssertedType), []string{"Iface"}, s)
		res = scalar(x.AssertedType, sx(un, v.S))
		t.assume(reach, implies(ok, t.typeAssume(res)), "unboxed value in type range")
	} else {
		res = t.havocVal(x.AssertedType, "unboxed")
	}
	if x.CommaOk {
		// on failure the value is the zero value
		if res.K == VScalar {
			z := t.zeroVal(x.AssertedType)
			if z.K == VScalar {
				res = scalar(x.AssertedType, ite(ok, res.S, z.S))
			}
		}
		t.setVal(x, Val{K: VTuple, T: x.Type(), Sub: []Val{res, scalar(types.Typ[types.Bool], ok)}})
		return
	}
	t.safety("typeassert", x.Pos(), reach, ok)
	t.setVal(x, res)
}

// ----------------------------------------------------------------- maps ---

// rangeVisited: the ghost component that holds the set of keys a `range` over
// a map has produced so far (an array key -> Bool), one per Range instruction.
func (t *FnTrans) rangeVisited(rg *ssa.Range) (comp, srt, ks string, ok bool) {
	mt, isMap := rg.X.Type().Underlying().(*types.Map)
	if !isMap {
		return "", "", "", false
	}
	ks = t.mode.scalarSort(mt.Key())
	if ks == "" {
		return "", "", "", false
	}
	if t.rangeIds == nil {
		t.rangeIds = map[*ssa.Range]int{}
	}
	id, seen := t.rangeIds[rg]
	if !seen {
		id = len(t.rangeIds) + 1
		t.rangeIds[rg] = id
	}
	return fmt.Sprintf("G.V.r%d", id), arraySort(ks, "Bool"), ks, true
}

func (t *FnTrans) noteKeyTerm(ks, key string) {
	if t.phase2 || key == "" {
		return
	}
	if t.keyTerms == nil {
		t.keyTerms = map[string]map[string]bool{}
	}
	if t.keyTerms[ks] == nil {
		t.keyTerms[ks] = map[string]bool{}
	}
	t.keyTerms[ks][key] = true
}

// visitKey: Next of a map range produced (ok, key).  The key was not produced
// before; it joins the visited set; and when the range is exhausted (!ok)
// every key that is present in the map has been produced -- unless the loop
// body itself inserts into a map of that type (Go may or may not produce an
// entry created during the iteration), in which case that fact is withheld.
func (t *FnTrans) visitKey(rg *ssa.Range, mt *types.Map, m, ok, key string, st *HeapState, reach string) {
	comp, srt, ks, has := t.rangeVisited(rg)
	if !has {
		return
	}
	t.noteKeyTerm(ks, key)
	v := t.heapGet(st, comp, srt)
	t.assume(reach, implies(ok, not(sx("select", v, key))), "a key is produced at most once by a range over a map")
	{
		pcomp, psrt, _, _ := t.mapComps(mt)
		pa := sx("select", t.heapGet(st, pcomp, psrt), m)
		guard := and(reach, not(ok))
		if t.loopInsertsIntoMapType(rg, mt) {
			// the loop inserts into some map of this type: the fact holds only
			// if none of those insertions went into the ranged map itself
			tcomp := strings.Replace(comp, "G.V.", "G.VT.", 1)
			tsrt := arraySort("Int", "Bool")
			guard = and(guard, not(sx("select", t.heapGet(st, tcomp, tsrt), "0")))
		}
		t.assumps = append(t.assumps, Assump{Guard: guard, Why: "an exhausted range over a map has produced every key that is present (no insertion into a map of this type inside the loop)", F: Formula{Lazy: func() string {
			var parts []string
			var cs []string
			for c := range t.keyTerms[ks] {
				cs = append(cs, c)
			}
			sortStrings(cs)
			for _, c := range cs {
				parts = append(parts, implies(and(not(eq(m, "0")), sx("select", pa, c)), sx("select", v, c)))
			}
			return and(parts...)
		}}})
	}
	t.heapSet(st, comp, srt, ite(ok, sx("store", v, key, "true"), v))
}

// loopInsertsIntoMapType: does the loop that iterates this range contain a map
// update (or an unknown effect) on a map of the ranged map's type?
func (t *FnTrans) loopInsertsIntoMapType(rg *ssa.Range, mt *types.Map) bool {
	var nextBlk *ssa.BasicBlock
	for _, ref := range *rg.Referrers() {
		if nx, ok := ref.(*ssa.Next); ok {
			nextBlk = nx.Block()
		}
	}
	if nextBlk == nil {
		return true
	}
	for _, li := range t.loops {
		if li.header != nextBlk {
			continue
		}
		for b := range li.blocks {
			for _, in := range b.Instrs {
				if mu, ok := in.(*ssa.MapUpdate); ok && types.Identical(mu.Map.Type().Underlying(), mt) {
					return true
				}
			}
		}
		return false
	}
	return true
}

func (t *FnTrans) mapComps(mt *types.Map) (present string, presentSort string, keySort string, ok bool) {
	ks := t.mode.scalarSort(mt.Key())
	if ks == "" {
		return "", "", "", false
	}
	k := typeKey(mt)
	return "M." + k + ".present", arraySort("Int", arraySort(ks, "Bool")), ks, true
}

// mapLenTerm: len(m) is the cardinality of the key set of m IN THE GIVEN STATE:
// an uninterpreted function of the present-set, so that the length the code
// reads and the length a clause mentions are the same term as long as no key
// was added or removed in between (and unrelated otherwise).  A map with an
// unmodelled key type has an arbitrary length.
func (t *FnTrans) mapLenTerm(st *HeapState, mt *types.Map, m string) string {
	comp, srt, ks, ok := t.mapComps(mt)
	if !ok {
		return t.declare(t.fresh("maplen"), t.mode.idxSort())
	}
	f := t.declareFun("map.card."+sanitize(ks), []string{arraySort(ks, "Bool")}, t.mode.idxSort())
	return ite(eq(m, "0"), t.mode.intLit64(0, 64), sx(f, sx("select", t.heapGet(st, comp, srt), m)))
}

func (t *FnTrans) mapValComps(mt *types.Map) []compDesc {
	return t.flatComps(mt.Elem())
}

func (t *FnTrans) makeMap(x *ssa.MakeMap, st *HeapState, reach string) {
	name := t.allocRef("mkmap")
	if t.privateAlloc[x] && t.loopDepth(x.Block()) == 0 {
		t.privateRefs[name] = true
	}
	mt := x.Type().Underlying().(*types.Map)
	if comp, srt, ks, ok := t.mapComps(mt); ok {
		arr := t.heapGet(st, comp, srt)
		t.heapSet(st, comp, srt, sx("store", arr, name, sx("(as const "+arraySort(ks, "Bool")+")", "false")))
		// the value components exist from now on, so that a later havoc knows
		// them and carries the contents of a map this function owns across it
		// (components are created lazily; one first mentioned by a clause after
		// the havoc would otherwise come out of it arbitrary)
		base := "M." + typeKey(mt) + ".val"
		for _, cd := range t.mapValComps(mt) {
			t.heapGet(st, base+cd.suffix, arraySort("Int", arraySort(ks, cd.sort)))
		}
	}
	t.setVal(x, scalar(x.Type(), name))
}

func (t *FnTrans) mapRead(st *HeapState, mt *types.Map, m, key string, reach string) (Val, string) {
	comp, srt, ks, ok := t.mapComps(mt)
	if !ok {
		return t.havocVal(mt.Elem(), "mapval"), t.declare(t.fresh("mapok"), "Bool")
	}
	present := sx("select", sx("select", t.heapGet(st, comp, srt), m), key)
	present = and(not(eq(m, "0")), present)
	if !strings.HasPrefix(key, "sks.") && !strings.HasPrefix(key, "skk.") {
		t.noteKeyTerm(ks, key)
	}
	if ks == "Str" && !t.phase2 && !strings.HasPrefix(key, "sks.") {
		// string keys the code itself looks up are instantiation candidates
		// for facts quantified over all strings (forallstr in hypotheses)
		t.strTerms[key] = true
	}
	cds := t.mapValComps(mt)
	var val Val
	base := "M." + typeKey(mt) + ".val"
	switch len(cds) {
	case 1:
		arr := t.heapGet(st, base, arraySort("Int", arraySort(ks, cds[0].sort)))
		raw := scalar(mt.Elem(), sx("select", sx("select", arr, m), key))
		t.assume(reach, t.typeAssume(raw), "map value in type range")
		t.entryRefFact(raw.S, mt.Elem())
		z := t.zeroVal(mt.Elem())
		val = scalar(mt.Elem(), ite(present, raw.S, z.S))
	case 4:
		val = Val{K: VSlice, T: mt.Elem()}
		z := t.zeroVal(mt.Elem())
		raw := Val{K: VSlice, T: mt.Elem()}
		for i, cd := range cds {
			arr := t.heapGet(st, base+cd.suffix, arraySort("Int", arraySort(ks, cd.sort)))
			raw.Sub = append(raw.Sub, scalar(nil, sx("select", sx("select", arr, m), key)))
			val.Sub = append(val.Sub, scalar(nil, ite(present, raw.Sub[i].S, z.Sub[i].S)))
		}
		t.assume(reach, t.typeAssume(raw), "map value slice header well-formed")
	default:
		val = t.havocVal(mt.Elem(), "mapval")
	}
	return val, present
}

func (t *FnTrans) lookup(x *ssa.Lookup, st *HeapState, reach string) {
	base := t.val(x.X)
	switch bt := x.X.Type().Underlying().(type) {
	case *types.Map:
		k := t.materialize(t.val(x.Index), bt.Key())
		if base.K != VScalar || k.K != VScalar {
			t.setVal(x, t.havocVal(x.Type(), "lookup"))
			return
		}
		v, ok := t.mapRead(st, bt, base.S, k.S, reach)
		if x.CommaOk {
			t.setVal(x, Val{K: VTuple, T: x.Type(), Sub: []Val{v, scalar(types.Typ[types.Bool], ok)}})
		} else {
			t.setVal(x, v)
		}
		return
	case *types.Basic: // string[i]
		i, ok := t.toIdx(t.val(x.Index))
		if ok && base.K == VScalar {
			t.safety("bounds", x.Pos(), reach, t.boundsCond(i, sx(t.strLen(), base.S)))
			f := t.declareFun("gstr.at", []string{"Str", t.mode.idxSort()}, t.mode.intSort(8))
			v := scalar(x.Type(), sx(f, base.S, i))
			t.assume(reach, t.typeAssume(v), "byte range")
			t.setVal(x, v)
			return
		}
	}
	t.setVal(x, t.havocVal(x.Type(), "lookup"))
}

func (t *FnTrans) mapUpdate(x *ssa.MapUpdate, st *HeapState, reach string, b *ssa.BasicBlock, idx int) {
	t.siteHook("mapupdate", x, b, idx, st, reach)
	if !rootIsLocal(x.Map) {
		t.frameCheck("mapupdate:"+t.srcText(x.Pos()), x.Pos(), reach)
	}
	mt := x.Map.Type().Underlying().(*types.Map)
	m := t.val(x.Map)
	k := t.materialize(t.val(x.Key), mt.Key())
	if m.K == VScalar {
		t.safety("nilmap", x.Pos(), reach, not(eq(m.S, "0")))
	}
	comp, srt, ks, ok := t.mapComps(mt)
	if !ok || m.K != VScalar || k.K != VScalar {
		// unmodelled key type: havoc the map components
		t.note("map update with unmodelled key type %s", mt.Key())
		return
	}
	t.noteKeyTerm(ks, k.S)
	// an insertion into a map that is being ranged over taints that range
	// (Go may or may not produce the new entry)
	for rg, ref := range t.rangeMapRef {
		if !types.Identical(rg.X.Type().Underlying(), mt) {
			continue
		}
		vcomp, _, _, has := t.rangeVisited(rg)
		if !has {
			continue
		}
		tcomp := strings.Replace(vcomp, "G.V.", "G.VT.", 1)
		tsrt := arraySort("Int", "Bool")
		old := t.heapGet(st, tcomp, tsrt)
		t.heapSet(st, tcomp, tsrt, sx("store", old, "0", or(sx("select", old, "0"), eq(m.S, ref))))
	}
	arr := t.heapGet(st, comp, srt)
	t.heapSet(st, comp, srt, sx("store", arr, m.S, sx("store", sx("select", arr, m.S), k.S, "true")))
	cds := t.mapValComps(mt)
	base := "M." + typeKey(mt) + ".val"
	v := t.materialize(t.val(x.Value), mt.Elem())
	switch {
	case len(cds) == 1 && v.K == VScalar:
		vs := arraySort("Int", arraySort(ks, cds[0].sort))
		va := t.heapGet(st, base, vs)
		t.heapSet(st, base, vs, sx("store", va, m.S, sx("store", sx("select", va, m.S), k.S, v.S)))
	case len(cds) == 4 && v.K == VSlice:
		for i, cd := range cds {
			vs := arraySort("Int", arraySort(ks, cd.sort))
			va := t.heapGet(st, base+cd.suffix, vs)
			t.heapSet(st, base+cd.suffix, vs, sx("store", va, m.S, sx("store", sx("select", va, m.S), k.S, v.Sub[i].S)))
		}
	default:
		// value not representable: havoc value component for this key
		for _, cd := range cds {
			vs := arraySort("Int", arraySort(ks, cd.sort))
			va := t.heapGet(st, base+cd.suffix, vs)
			fv := t.declare(t.fresh("mapval"), cd.sort)
			t.heapSet(st, base+cd.suffix, vs, sx("store", va, m.S, sx("store", sx("select", va, m.S), k.S, fv)))
		}
	}
}

// ------------------------------------------------------------- return -----

func (t *FnTrans) returnInstr(x *ssa.Return, st *HeapState, reach string, b *ssa.BasicBlock, idx int) {
	t.retCount++
	if t.con == nil {
		return
	}
	env := t.entryEnv(st.clone())
	env.old = t.entryEnv(t.entry0)
	// facts introduced while reading the state at this return (type ranges of
	// loaded values) hold on the paths that reach it, not on the others
	env.guard = reach
	sig := t.fn.Signature
	for i, r := range x.Results {
		v := t.materialize(t.val(r), sig.Results().At(i).Type())
		env.vars[fmt.Sprintf("result%d", i)] = v
		if i == 0 {
			env.vars["result"] = v
		}
		if n := sig.Results().At(i).Name(); n != "" && n != "_" {
			if _, clash := env.vars[n]; !clash {
				env.vars[n] = v
			}
		}
	}
	// local variables are visible in ensures through the return point
	env.lookup = t.lookupAt(b, idx, st, nil)
	for k, c := range t.con.Ensures {
		lbl := c.Label
		if lbl == "" {
			lbl = fmt.Sprint(k + 1)
		}
		t.addObl("ensures", fmt.Sprintf("%s@ret%d", lbl, t.retCount), reach, Formula{Clause: c, Env: env}, x.Pos(), c.Text)
	}
	t.canary(fmt.Sprintf("ret%d", t.retCount), reach)
}

// ---------------------------------------------------- variable lookup -----

// lookupAt builds a resolver for local variable names at a program point.
func (t *FnTrans) lookupAt(b *ssa.BasicBlock, idx int, st *HeapState, subst map[ssa.Value]Val) func(string) (Val, bool) {
	return func(name string) (Val, bool) {
		blk, i := b, idx
		for blk != nil {
			for j := i - 1; j >= 0; j-- {
				switch d := blk.Instrs[j].(type) {
				case *ssa.DebugRef:
					id, ok := d.Expr.(*ast.Ident)
					if !ok || id.Name != name {
						continue
					}
					if _, isVar := d.Object().(*types.Var); !isVar {
						continue
					}
					if d.IsAddr {
						// variable lives in memory: read the cell now
						p := t.val(d.X)
						l, ok := t.locOf(p, d.X.Type())
						if !ok {
							return Val{}, false
						}
						return t.load(st, l, "true"), true
					}
					// the definition of a variable that lives in memory is recorded
					// with its initial VALUE; the variable's current content is in
					// its cell (it may have been assigned since)
					if av := t.addrOfVar(d.Object()); av != nil {
						if l, ok := t.locOf(t.val(av), av.Type()); ok {
							return t.load(st, l, "true"), true
						}
					}
					if sv, ok := subst[d.X]; ok {
						return sv, true
					}
					return t.val(d.X), true
				case *ssa.Phi:
					if d.Comment == name {
						if sv, ok := subst[d]; ok {
							return sv, true
						}
						return t.val(d), true
					}
				}
			}
			blk = blk.Idom()
			if blk != nil {
				i = len(blk.Instrs)
			}
		}
		if v, ok := t.params[name]; ok {
			return v, true
		}
		return Val{}, false
	}
}

func (t *FnTrans) pointEnv(b *ssa.BasicBlock, idx int, st *HeapState, subst map[ssa.Value]Val) *Env {
	e := &Env{t: t, st: st, pkg: t.pkg, vars: map[string]Val{}}
	e.old = t.entryEnv(t.entry0)
	e.lookup = t.lookupAt(b, idx, st, subst)
	return e
}

// constGlobalVal: the value of a never-assigned package-level slice variable.
func (t *FnTrans) constGlobalVal(g *ssa.Global, cg *constGlobal, ty types.Type) Val {
	name := "gconst." + sanitize(g.Pkg.Pkg.Name()+"."+g.Name())
	es := t.mode.scalarSort(cg.elemT)
	w, _, _ := intInfo(cg.elemT)
	if !t.declSet[name] {
		t.declare(name, "Int")
		arr := t.declare(name+".arr", arraySort(t.mode.idxSort(), es))
		var facts []string
		facts = append(facts, sx("<", name, "0"))
		for other := range t.constArrs {
			facts = append(facts, not(eq(name, other)))
		}
		t.constElemSort[name] = es
		for i, c := range cg.elems {
			b, _ := constToBig(c)
			facts = append(facts, eq(sx("select", arr, t.mode.intLit64(int64(i), 64)), t.mode.intLit(b, w)))
		}
		t.assume("true", and(facts...), "contents of constant package-level slice "+g.Name())
		t.constArrs[name] = arr
		t.globalsUsed[g.Pkg.Pkg.Name()+"."+g.Name()] = true
	}
	n := t.mode.intLit64(int64(len(cg.elems)), 64)
	return Val{K: VSlice, T: ty, Sub: []Val{scalar(nil, name), scalar(nil, t.mode.intLit64(0, 64)), scalar(nil, n), scalar(nil, n)}}
}

// loopDepth: number of natural loops containing the block.
func (t *FnTrans) loopDepth(b *ssa.BasicBlock) int {
	n := 0
	for _, li := range t.loops {
		if li.blocks[b] {
			n++
		}
	}
	return n
}

// addrOfVar: the address (allocation) of a local variable that lives in
// memory, found through a DebugRef that refers to the variable as an lvalue.
func (t *FnTrans) addrOfVar(obj types.Object) ssa.Value {
	if obj == nil {
		return nil
	}
	if t.varAddr == nil {
		t.varAddr = map[types.Object]ssa.Value{}
		for _, b := range t.fn.Blocks {
			for _, in := range b.Instrs {
				if d, ok := in.(*ssa.DebugRef); ok && d.IsAddr && d.Object() != nil {
					if _, isAlloc := d.X.(*ssa.Alloc); isAlloc {
						t.varAddr[d.Object()] = d.X
					}
				}
			}
		}
	}
	return t.varAddr[obj]
}
