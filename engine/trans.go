package main

// Translation of one go/ssa function into SMT definitions, assumptions and
// named proof obligations (passive-form weakest preconditions over the SSA
// control-flow graph, loops cut at their headers).

import (
	"bytes"
	"fmt"
	"go/ast"
	"go/constant"
	"go/printer"
	"go/token"
	"go/types"
	"regexp"
	"sort"
	"strings"

	"golang.org/x/tools/go/ast/astutil"
	"golang.org/x/tools/go/ssa"
)

// Deferred formula: translated at query-assembly time (phase 2), when all
// SSA values and all quantifier-instantiation candidates are known.
type Formula struct {
	Clause *Clause
	Env    *Env
	Raw    string // already translated term (when Clause == nil)
	Lazy   func() string
}

type Assump struct {
	Guard  string
	F      Formula
	Why    string
	Global bool // added while translating contract clauses: a fact about terms, visible to every obligation
}

type Obl struct {
	Name        string
	Kind        string
	Guard       string
	F           Formula
	NAssume     int // assumptions [0,NAssume) are visible
	Pos         token.Pos
	Text        string // clause / source text
	Fn          *ssa.Function
	Canary      bool // must be refuted (vacuity probe)
	Broken      bool
	ExtraAssume string
	// filled in phase 2
	Goal string
}

type loopInfo struct {
	header   *ssa.BasicBlock
	blocks   map[*ssa.BasicBlock]bool
	latches  []*ssa.BasicBlock
	ordinal  int
	spec     *LoopSpec
	stmt     ast.Node
	modAll   bool
	ghostAll bool // a call in the loop has a contract without a frame: ghost state may change too
	mods     map[string]bool
	decHead  string // value of the `decreases` measure at the loop head of the current iteration
}

type FnTrans struct {
	W    *World
	fn   *ssa.Function
	con  *Contract
	mode Mode
	pkg  *types.Package

	decls          []string
	declSet        map[string]bool
	defs           []string
	assumps        []Assump
	obls           []*Obl
	vals           map[ssa.Value]Val
	reach          map[*ssa.BasicBlock]string
	exitSt         map[*ssa.BasicBlock]*HeapState
	entrySt        map[*ssa.BasicBlock]*HeapState
	edgeCond       map[[2]int]string
	entry0         *HeapState // heap at function entry (for old())
	loops          map[*ssa.BasicBlock]*loopInfo
	backEdge       map[[2]int]bool
	counter        int
	epochs         int
	idxTerms       map[string]bool
	nameCnt        map[string]int
	abstractions   []string
	unknownCalls   map[string]int
	dynSplits      int // dynamic calls resolved by a case split over function constants
	assumedUsed    map[string]bool
	contractsUsed  map[string]bool
	localRefs      []string // refs of allocations made by this function
	params         map[string]Val
	results        []Val // per return site handled separately
	unsupported    string
	siteCount      map[string]int
	strLits        map[string]string
	typeTags       map[string]int
	compSorts      map[string]string
	elemIdx        map[string]bool
	deferred       []*ssa.Defer
	retCount       int
	intrinsicsUsed map[string]bool
	pureCalls      map[string]int
	sitesMatched   map[*SiteSpec]bool
	contractErrors []string
	assumpTerms    []string
	knownRefs      map[string]bool
	strPairs       map[string]bool
	strTerms       map[string]bool
	allowedMods    map[string]bool // nil: no component-level frame check
	skCache        map[string]string
	f64bitsCache   map[string]string
	subRefSeen     map[string]bool
	subRefTerms    []string
	privateAlloc   map[ssa.Value]bool
	privateRefs    map[string]bool
	varAddr        map[types.Object]ssa.Value // local variables that live in memory -> their allocation
	phase2         bool
	siteRanks      map[*SiteSpec]map[ssa.Instruction]int
	constArrs      map[string]string
	constElemSort  map[string]string          // const global name -> element sort
	constDefs      map[string]bool            // defined names whose term is built from const-slice names
	fnNames        map[string]bool            // names of the function's variables (stale-contract detection)
	idxNeighbours  map[string]bool            // second-rank instantiation candidates (skolem index + 1)
	keyTerms       map[string]map[string]bool // key sort -> terms of that sort used as map keys / key skolems (instantiation candidates)
	rangeIds       map[*ssa.Range]int         // map ranges -> id of their visited-set component V.r<id>
	rangeMapRef    map[*ssa.Range]string      // map ranges -> reference term of the ranged map
	curSt          *HeapState                 // state of the instruction being translated (moving allocation frontier)
	staleClauses   []string                   // clauses that mention a name the function no longer has
	globalsUsed    map[string]bool
}

func (t *FnTrans) fresh(prefix string) string {
	t.counter++
	return fmt.Sprintf("%s!%d", sanitize(prefix), t.counter)
}

func (t *FnTrans) declare(name, sort string) string {
	if !t.declSet[name] {
		t.declSet[name] = true
		t.decls = append(t.decls, fmt.Sprintf("(declare-const %s %s)", name, sort))
	}
	return name
}

func (t *FnTrans) declareFun(name string, args []string, ret string) string {
	if !t.declSet[name] {
		t.declSet[name] = true
		t.decls = append(t.decls, fmt.Sprintf("(declare-fun %s (%s) %s)", name, strings.Join(args, " "), ret))
	}
	return name
}

func (t *FnTrans) define(prefix, sort, term string) string {
	// keep small terms inline
	if !strings.Contains(term, " ") {
		return term
	}
	n := t.fresh(prefix)
	t.defs = append(t.defs, fmt.Sprintf("(define-fun %s () %s %s)", n, sort, term))
	if strings.Contains(term, "gconst.") || t.mentionsConstDef(term) {
		if t.constDefs == nil {
			t.constDefs = map[string]bool{}
		}
		t.constDefs[n] = true
	}
	return n
}

// mentionsConstDef: the term mentions a defined name whose definition is
// (transitively) built from constant package-level slice names.
func (t *FnTrans) mentionsConstDef(term string) bool {
	for n := range t.constDefs {
		if strings.Contains(term, n) {
			return true
		}
	}
	return false
}

func (t *FnTrans) assume(guard, term, why string) {
	if term == "true" {
		return
	}
	t.assumps = append(t.assumps, Assump{Guard: guard, F: Formula{Raw: term}, Why: why, Global: t.phase2})
}

func (t *FnTrans) note(format string, a ...interface{}) {
	s := fmt.Sprintf(format, a...)
	for _, x := range t.abstractions {
		if x == s {
			return
		}
	}
	t.abstractions = append(t.abstractions, s)
}

// ---------------------------------------------------------------- heap ----

func (t *FnTrans) newEpochState() *HeapState {
	t.epochs++
	return &HeapState{cur: map[string]string{}, epoch: t.epochs, pending: map[string]int{}, pendingPrefix: map[string]int{}}
}

// heapGet returns the current term of a heap component.
func (t *FnTrans) heapGet(st *HeapState, comp, sort string) string {
	if v, ok := st.cur[comp]; ok {
		return v
	}
	var v string
	if ep, ok := st.pending[comp]; ok {
		v = t.declare(fmt.Sprintf("H.%s.e%d", comp, ep), sort)
		st.cur[comp] = v
		t.compSorts[comp] = sort
		return v
	}
	for pre, ep := range st.pendingPrefix {
		if strings.HasPrefix(comp, pre) {
			v = t.declare(fmt.Sprintf("H.%s.e%d", comp, ep), sort)
			st.cur[comp] = v
			t.compSorts[comp] = sort
			return v
		}
	}
	if st.merge != nil {
		// lazily merge predecessors
		terms := make([]string, len(st.merge))
		same := true
		for i, mi := range st.merge {
			terms[i] = t.heapGet(mi.st, comp, sort)
			if terms[i] != terms[0] {
				same = false
			}
		}
		if same {
			v = terms[0]
		} else {
			term := terms[len(terms)-1]
			for i := len(terms) - 2; i >= 0; i-- {
				term = ite(st.merge[i].cond, terms[i], term)
			}
			v = t.define("H."+comp, sort, term)
		}
	} else {
		v = t.declare(fmt.Sprintf("H.%s.e%d", comp, st.epoch), sort)
	}
	st.cur[comp] = v
	t.compSorts[comp] = sort
	return v
}

func (t *FnTrans) heapSet(st *HeapState, comp, sort, term string) {
	st.cur[comp] = t.define("H."+comp, sort, term)
	t.compSorts[comp] = sort
}

func arraySort(idx, elem string) string { return "(Array " + idx + " " + elem + ")" }

// component descriptors for a Go type stored in memory (field, cell, element)
type compDesc struct {
	suffix string
	sort   string
}

func (t *FnTrans) flatComps(ty types.Type) []compDesc {
	if s := t.mode.scalarSort(ty); s != "" {
		return []compDesc{{"", s}}
	}
	switch ty.Underlying().(type) {
	case *types.Slice:
		i := t.mode.idxSort()
		return []compDesc{{"!base", "Int"}, {"!off", i}, {"!len", i}, {"!cap", i}}
	}
	return nil
}

func (t *FnTrans) sortKey(ty types.Type) string {
	if s := t.mode.scalarSort(ty); s != "" {
		return compSortSuffix(s)
	}
	switch u := ty.Underlying().(type) {
	case *types.Slice:
		return "slice"
	case *types.Struct:
		return "struct." + typeKey(ty)
	case *types.Array:
		return "array." + t.sortKey(u.Elem())
	}
	return "other." + typeKey(ty)
}

// locComp returns the heap component name (without suffix) of a location.
func (t *FnTrans) locComp(l *Loc) string { return l.Comp }

func (t *FnTrans) fieldLoc(structT types.Type, idx int, ref string) *Loc {
	st := structT.Underlying().(*types.Struct)
	f := st.Field(idx)
	owner := typeKey(structT)
	return &Loc{Kind: LField, Comp: "F." + owner + "." + f.Name(), Ref: ref, T: f.Type(), Owner: owner, Field: f.Name()}
}

func (t *FnTrans) cellLoc(ty types.Type, ref string) *Loc {
	return &Loc{Kind: LCell, Comp: "C." + t.sortKey(ty), Ref: ref, T: ty}
}

func (t *FnTrans) elemLoc(elemT types.Type, base, idx string) *Loc {
	return &Loc{Kind: LElem, Comp: "B." + t.sortKey(elemT), Ref: base, Idx: idx, T: elemT}
}

// subRef: reference of a struct/array stored inline at a location.
func (t *FnTrans) subRef(l *Loc) string {
	var term string
	switch l.Kind {
	case LCell:
		return l.Ref
	case LField:
		fn := t.declareFun("sub."+l.Owner+"."+l.Field, []string{"Int"}, "Int")
		term = sx(fn, l.Ref)
	default:
		fn := t.declareFun("elem."+t.sortKey(l.T), []string{"Int", t.mode.idxSort()}, "Int")
		term = sx(fn, l.Ref, l.Idx)
	}
	// an object stored inline in another one is never nil and never one of
	// this function's own allocations
	if !t.subRefSeen[term] {
		t.subRefSeen[term] = true
		facts := []string{not(eq(term, "0"))}
		for _, a := range t.localRefs {
			facts = append(facts, not(eq(term, a)))
		}
		t.assume("true", and(facts...), "inline sub-object is distinct from nil and from local allocations")
		t.subRefTerms = append(t.subRefTerms, term)
	}
	return term
}

func isStructOrArray(ty types.Type) bool {
	switch ty.Underlying().(type) {
	case *types.Struct, *types.Array:
		return true
	}
	return false
}

func (t *FnTrans) selectComp(st *HeapState, l *Loc, cd compDesc) string {
	comp := l.Comp + cd.suffix
	if l.Kind == LElem {
		if ca, ok := t.constArrs[l.Ref]; ok {
			return sx("select", ca, l.Idx)
		}
		arr := t.heapGet(st, comp, arraySort("Int", arraySort(t.mode.idxSort(), cd.sort)))
		r := sx("select", sx("select", arr, l.Ref), l.Idx)
		// the base may be (a choice of) constant package-level slices, whose
		// contents never change whatever happened to the heap
		var names []string
		for n := range t.constArrs {
			// only when the base term is built from constant-slice names (a
			// choice between them after a branch); other bases are heap objects
			if t.constElemSort[n] == cd.sort && cd.suffix == "" && (strings.Contains(l.Ref, "gconst.") || t.mentionsConstDef(l.Ref)) {
				names = append(names, n)
			}
		}
		sort.Strings(names)
		for _, n := range names {
			r = ite(eq(l.Ref, n), sx("select", t.constArrs[n], l.Idx), r)
		}
		return r
	}
	arr := t.heapGet(st, comp, arraySort("Int", cd.sort))
	return sx("select", arr, l.Ref)
}

func (t *FnTrans) storeComp(st *HeapState, l *Loc, cd compDesc, v string) {
	comp := l.Comp + cd.suffix
	if l.Kind == LElem {
		srt := arraySort("Int", arraySort(t.mode.idxSort(), cd.sort))
		arr := t.heapGet(st, comp, srt)
		t.heapSet(st, comp, srt, sx("store", arr, l.Ref, sx("store", sx("select", arr, l.Ref), l.Idx, v)))
		return
	}
	srt := arraySort("Int", cd.sort)
	arr := t.heapGet(st, comp, srt)
	t.heapSet(st, comp, srt, sx("store", arr, l.Ref, v))
}

// typeAssume returns the well-formedness facts Go guarantees for a value
// (integer range in int mode, slice header sanity).
func (t *FnTrans) typeAssume(v Val) string {
	switch v.K {
	case VScalar:
		if t.mode.isInt() {
			if w, s, ok := intInfo(v.T); ok {
				return rangeInt(v.S, w, s)
			}
		}
		if _, ok := v.T.Underlying().(*types.Map); ok {
			return "true"
		}
	case VSlice:
		z := t.mode.intLit64(0, 64)
		return and(t.cmpIdx("<=", z, v.Sub[2].S), t.cmpIdx("<=", v.Sub[2].S, v.Sub[3].S), t.cmpIdx("<=", z, v.Sub[1].S),
			// off+cap does not overflow the index space
			t.cmpIdx("<=", v.Sub[3].S, t.mode.intLit(pow2(48), 64)), t.cmpIdx("<=", v.Sub[1].S, t.mode.intLit(pow2(48), 64)),
			implies(eq(v.Sub[0].S, "0"), and(eq(v.Sub[3].S, z), eq(v.Sub[1].S, z))))
	case VStruct, VTuple:
		var a []string
		for _, s := range v.Sub {
			a = append(a, t.typeAssume(s))
		}
		return and(a...)
	}
	return "true"
}

func (t *FnTrans) cmpIdx(op, a, b string) string {
	if t.mode.isInt() {
		return sx(op, a, b)
	}
	m := map[string]string{"<": "bvslt", "<=": "bvsle", ">": "bvsgt", ">=": "bvsge"}
	return sx(m[op], a, b)
}

// load reads a value of type ty from a location.
func (t *FnTrans) load(st *HeapState, l *Loc, guard string) Val {
	ty := l.T
	switch u := ty.Underlying().(type) {
	case *types.Struct:
		ref := t.subRef(l)
		return t.loadStruct(st, ty, ref, guard)
	case *types.Array:
		ref := t.subRef(l)
		es := t.mode.scalarSort(u.Elem())
		if es == "" {
			t.note("array of composite elements loaded as a value: abstracted")
			return unknown(ty)
		}
		comp := "B." + t.sortKey(u.Elem())
		arr := t.heapGet(st, comp, arraySort("Int", arraySort(t.mode.idxSort(), es)))
		return Val{K: VArray, T: ty, S: sx("select", arr, ref)}
	case *types.Slice:
		cds := t.flatComps(ty)
		v := Val{K: VSlice, T: ty}
		for _, cd := range cds {
			v.Sub = append(v.Sub, scalar(nil, t.selectComp(st, l, cd)))
		}
		t.assume(guard, t.typeAssume(v), "slice header loaded from memory is well-formed")
		// the backing array of a slice stored in the entry heap existed at entry
		if len(v.Sub) > 0 && entryHeapSelect.MatchString(v.Sub[0].S) {
			if !t.declSet["ALLOC0"] {
				t.declare("ALLOC0", "Int")
				t.assume("true", sx(">", "ALLOC0", "0"), "allocation frontier is above nil")
			}
			t.assume("true", sx("<=", v.Sub[0].S, "ALLOC0"), "a backing array referenced from the entry heap is below the allocation frontier")
		}
		return v
	}
	cds := t.flatComps(ty)
	if len(cds) != 1 {
		t.note("load of unsupported type %s: abstracted", ty)
		return unknown(ty)
	}
	v := scalar(ty, t.selectComp(st, l, cds[0]))
	if t.mode.isInt() {
		if _, _, ok := intInfo(ty); ok {
			t.assume(guard, t.typeAssume(v), "integer loaded from memory is in range")
		}
	}
	t.entryRefFact(v.S, ty)
	return v
}

var entryHeapSelect = regexp.MustCompile(`^\(select (\(select )?H\.[^ ()]*\.e1 `)

// entryRefFact: allocation frontier.  A reference read directly from the heap
// as it was at function entry (an epoch-1 component) denotes an object that
// existed at entry: it lies at or below ALLOC0, while every object this
// function allocates lies above it (allocRef).  Only entry-state reads get the
// fact: after a call the heap may hold objects the callee allocated.
func (t *FnTrans) entryRefFact(term string, ty types.Type) {
	if ty == nil {
		return
	}
	switch ty.Underlying().(type) {
	case *types.Pointer, *types.Map, *types.Chan:
	default:
		return
	}
	if !entryHeapSelect.MatchString(term) {
		return
	}
	if !t.declSet["ALLOC0"] {
		t.declare("ALLOC0", "Int")
		t.assume("true", sx(">", "ALLOC0", "0"), "allocation frontier is above nil")
	}
	t.assume("true", sx("<=", term, "ALLOC0"), "a reference stored in the entry heap is below the allocation frontier")
}

func (t *FnTrans) loadStruct(st *HeapState, ty types.Type, ref string, guard string) Val {
	s := ty.Underlying().(*types.Struct)
	v := Val{K: VStruct, T: ty}
	for i := 0; i < s.NumFields(); i++ {
		v.Sub = append(v.Sub, t.load(st, t.fieldLoc(ty, i, ref), guard))
	}
	return v
}

// store writes a value to a location.
func (t *FnTrans) store(st *HeapState, l *Loc, v Val) {
	ty := l.T
	v = t.materialize(v, ty)
	switch u := ty.Underlying().(type) {
	case *types.Struct:
		ref := t.subRef(l)
		t.storeStruct(st, ty, ref, v)
		return
	case *types.Array:
		ref := t.subRef(l)
		es := t.mode.scalarSort(u.Elem())
		if es == "" {
			t.note("store of array with composite elements: abstracted")
			return
		}
		comp := "B." + t.sortKey(u.Elem())
		srt := arraySort("Int", arraySort(t.mode.idxSort(), es))
		arr := t.heapGet(st, comp, srt)
		var nv string
		if v.K == VArray {
			nv = v.S
		} else {
			nv = t.declare(t.fresh("havocarr"), arraySort(t.mode.idxSort(), es))
		}
		t.heapSet(st, comp, srt, sx("store", arr, ref, nv))
		return
	}
	cds := t.flatComps(ty)
	if cds == nil {
		t.note("store of unsupported type %s: ignored", ty)
		return
	}
	if len(cds) == 4 {
		if v.K != VSlice {
			v = t.havocVal(ty, "storeslice")
		}
		for i, cd := range cds {
			t.storeComp(st, l, cd, v.Sub[i].S)
		}
		return
	}
	if v.K != VScalar {
		v = t.havocVal(ty, "store")
	}
	t.storeComp(st, l, cds[0], v.S)
}

func (t *FnTrans) storeStruct(st *HeapState, ty types.Type, ref string, v Val) {
	s := ty.Underlying().(*types.Struct)
	for i := 0; i < s.NumFields(); i++ {
		var fv Val
		if v.K == VStruct && i < len(v.Sub) {
			fv = v.Sub[i]
		} else {
			fv = t.havocVal(s.Field(i).Type(), "storefield")
		}
		t.store(st, t.fieldLoc(ty, i, ref), fv)
	}
}

// havocVal creates an arbitrary value of the given type.
func (t *FnTrans) havocVal(ty types.Type, hint string) Val {
	if ty == nil {
		return Val{K: VNone}
	}
	if s := t.mode.scalarSort(ty); s != "" {
		v := scalar(ty, t.declare(t.fresh(hint), s))
		t.assume("true", t.typeAssume(v), "type range of fresh value")
		return v
	}
	switch u := ty.Underlying().(type) {
	case *types.Slice:
		v := Val{K: VSlice, T: ty}
		i := t.mode.idxSort()
		n := t.fresh(hint)
		v.Sub = []Val{scalar(nil, t.declare(n+".base", "Int")), scalar(nil, t.declare(n+".off", i)), scalar(nil, t.declare(n+".len", i)), scalar(nil, t.declare(n+".cap", i))}
		t.assume("true", t.typeAssume(v), "slice header well-formed")
		return v
	case *types.Struct:
		v := Val{K: VStruct, T: ty}
		for i := 0; i < u.NumFields(); i++ {
			v.Sub = append(v.Sub, t.havocVal(u.Field(i).Type(), hint+"."+u.Field(i).Name()))
		}
		return v
	case *types.Tuple:
		v := Val{K: VTuple, T: ty}
		for i := 0; i < u.Len(); i++ {
			v.Sub = append(v.Sub, t.havocVal(u.At(i).Type(), fmt.Sprintf("%s.%d", hint, i)))
		}
		return v
	case *types.Array:
		es := t.mode.scalarSort(u.Elem())
		if es != "" {
			return Val{K: VArray, T: ty, S: t.declare(t.fresh(hint), arraySort(t.mode.idxSort(), es))}
		}
	}
	return unknown(ty)
}

// materialize turns constants (and unknowns) into terms of the wanted type.
func (t *FnTrans) materialize(v Val, want types.Type) Val {
	switch v.K {
	case VConst:
		return t.constVal(v.C, want)
	case VUnknown:
		if want == nil {
			want = v.T
		}
		if want == nil {
			return v
		}
		return t.havocVal(want, "unk")
	}
	return v
}

func (t *FnTrans) strLit(s string) string {
	if n, ok := t.strLits[s]; ok {
		return n
	}
	n := t.declare(fmt.Sprintf("strlit!%d", len(t.strLits)), "Str")
	t.strLits[s] = n
	t.assume("true", eq(sx(t.strLen(), n), t.mode.intLit64(int64(len(s)), 64)), "length of string literal")
	return n
}

func (t *FnTrans) strLen() string {
	return t.declareFun("gstr.len", []string{"Str"}, t.mode.idxSort())
}

func (t *FnTrans) constVal(c constant.Value, ty types.Type) Val {
	if ty == nil {
		switch c.Kind() {
		case constant.Bool:
			ty = types.Typ[types.Bool]
		case constant.Int:
			ty = types.Typ[types.Int]
		case constant.Float:
			ty = types.Typ[types.Float64]
		case constant.String:
			ty = types.Typ[types.String]
		}
	}
	if c == nil { // nil / zero value
		return t.zeroVal(ty)
	}
	if w, _, ok := intInfo(ty); ok {
		b, ok2 := constToBig(c)
		if !ok2 {
			t.note("non-integer constant %s for integer type", c)
			return t.havocVal(ty, "const")
		}
		return scalar(ty, t.mode.intLit(b, w))
	}
	if w, ok := isFloat(ty); ok {
		f, _ := constant.Float64Val(constant.ToFloat(c))
		if t.mode.isReal() {
			return scalar(ty, realLit(f))
		}
		if w == 32 {
			return scalar(ty, f32Lit(float32(f)))
		}
		return scalar(ty, f64Lit(f))
	}
	if isBool(ty) {
		if constant.BoolVal(c) {
			return scalar(ty, "true")
		}
		return scalar(ty, "false")
	}
	if isString(ty) {
		return scalar(ty, t.strLit(constant.StringVal(c)))
	}
	if _, ok := ty.Underlying().(*types.Interface); ok {
		// constant converted to interface: abstract
		return t.havocVal(ty, "constiface")
	}
	t.note("constant of unsupported type %s", ty)
	return t.havocVal(ty, "const")
}

func (t *FnTrans) zeroVal(ty types.Type) Val {
	if ty == nil {
		return Val{K: VNone}
	}
	if w, _, ok := intInfo(ty); ok {
		return scalar(ty, t.mode.intLit64(0, w))
	}
	if w, ok := isFloat(ty); ok {
		if t.mode.isReal() {
			return scalar(ty, "0.0")
		}
		if w == 32 {
			return scalar(ty, f32Lit(0))
		}
		return scalar(ty, f64Lit(0))
	}
	if isBool(ty) {
		return scalar(ty, "false")
	}
	if isString(ty) {
		return scalar(ty, t.strLit(""))
	}
	switch u := ty.Underlying().(type) {
	case *types.Pointer, *types.Map, *types.Signature, *types.Chan:
		return scalar(ty, "0")
	case *types.Basic:
		if u.Kind() == types.UntypedNil || u.Kind() == types.UnsafePointer {
			return scalar(ty, "0")
		}
	case *types.Interface:
		t.declare("iface.nil", "Iface")
		return scalar(ty, "iface.nil")
	case *types.Slice:
		z := t.mode.intLit64(0, 64)
		return Val{K: VSlice, T: ty, Sub: []Val{scalar(nil, "0"), scalar(nil, z), scalar(nil, z), scalar(nil, z)}}
	case *types.Struct:
		v := Val{K: VStruct, T: ty}
		for i := 0; i < u.NumFields(); i++ {
			v.Sub = append(v.Sub, t.zeroVal(u.Field(i).Type()))
		}
		return v
	case *types.Array:
		es := t.mode.scalarSort(u.Elem())
		if es == "Iface" || es == "Str" {
			return Val{K: VArray, T: ty, S: t.declare(t.fresh("zeroarr"), arraySort(t.mode.idxSort(), es))}
		}
		if es != "" {
			z := t.zeroVal(u.Elem())
			return Val{K: VArray, T: ty, S: sx("(as const "+arraySort(t.mode.idxSort(), es)+")", z.S)}
		}
	}
	return unknown(ty)
}

// ------------------------------------------------------------ source text --

func (t *FnTrans) srcText(pos token.Pos) string {
	if !pos.IsValid() || t.fn.Syntax() == nil {
		return ""
	}
	file := t.W.fileOf(t.fn, pos)
	if file == nil {
		return ""
	}
	path, _ := astutil.PathEnclosingInterval(file, pos, pos)
	for _, n := range path {
		switch n.(type) {
		case *ast.IndexExpr, *ast.SliceExpr, *ast.BinaryExpr, *ast.CallExpr, *ast.StarExpr, *ast.SelectorExpr, *ast.TypeAssertExpr, *ast.AssignStmt, *ast.IncDecStmt, *ast.UnaryExpr:
			return nodeText(t.W.fset, n)
		}
	}
	return ""
}

func nodeText(fset *token.FileSet, n ast.Node) string {
	var buf bytes.Buffer
	printer.Fprint(&buf, fset, n)
	s := normText(buf.String())
	if len(s) > 80 {
		s = s[:80]
	}
	return s
}

// view: the view under which this function is being verified ("" = primary)
func (t *FnTrans) view() string {
	if t.con != nil {
		return t.con.View
	}
	return ""
}

func (t *FnTrans) oblName(kind, text string) string {
	fk := fnKey(t.fn)
	if v := t.view(); v != "" {
		fk += "@" + v
	}
	base := fmt.Sprintf("%s.%s/%s", t.pkg.Name(), fk, kind)
	if text != "" {
		base += ":" + text
	}
	t.nameCnt[base]++
	return fmt.Sprintf("%s#%d", base, t.nameCnt[base])
}

func fnKey(fn *ssa.Function) string {
	if par := fn.Parent(); par != nil {
		// closure: keyed as <key of the outermost enclosing function minus its name><closure name>
		root := par
		for root.Parent() != nil {
			root = root.Parent()
		}
		rk := fnKey(root)
		return strings.TrimSuffix(rk, root.Name()) + fn.Name()
	}
	if recv := fn.Signature.Recv(); recv != nil {
		rt := recv.Type()
		star := ""
		if p, ok := rt.(*types.Pointer); ok {
			rt = p.Elem()
			star = "*"
		}
		name := rt.String()
		if n, ok := rt.(*types.Named); ok {
			name = n.Obj().Name()
		}
		return fmt.Sprintf("(%s%s).%s", star, name, fn.Name())
	}
	return fn.Name()
}

func (t *FnTrans) addObl(kind, text, guard string, f Formula, pos token.Pos, clauseText string) *Obl {
	o := &Obl{Name: t.oblName(kind, text), Kind: kind, Guard: guard, F: f, NAssume: len(t.assumps), Pos: pos, Text: clauseText, Fn: t.fn}
	t.obls = append(t.obls, o)
	return o
}

// safety adds a panic-freedom condition: an obligation when the function is
// `safe`, and always an assumption for the code after it.
func (t *FnTrans) safety(kind string, pos token.Pos, guard, cond string) {
	if cond == "true" {
		return
	}
	if t.con != nil && t.con.Safe {
		t.addObl(kind, t.srcText(pos), guard, Formula{Raw: cond}, pos, "")
	}
	t.assume(guard, cond, "no panic at earlier "+kind)
}

// --------------------------------------------------------------- loops ----

func (t *FnTrans) findLoops() {
	t.loops = map[*ssa.BasicBlock]*loopInfo{}
	t.backEdge = map[[2]int]bool{}
	for _, b := range t.fn.Blocks {
		for _, s := range b.Succs {
			if s.Dominates(b) {
				t.backEdge[[2]int{b.Index, s.Index}] = true
				li := t.loops[s]
				if li == nil {
					li = &loopInfo{header: s, blocks: map[*ssa.BasicBlock]bool{s: true}, mods: map[string]bool{}}
					t.loops[s] = li
				}
				li.latches = append(li.latches, b)
				// natural loop: nodes that reach b without passing through s
				stack := []*ssa.BasicBlock{b}
				for len(stack) > 0 {
					x := stack[len(stack)-1]
					stack = stack[:len(stack)-1]
					if li.blocks[x] {
						continue
					}
					li.blocks[x] = true
					for _, p := range x.Preds {
						stack = append(stack, p)
					}
				}
			}
		}
	}
	if len(t.loops) == 0 {
		return
	}
	// match loops to for/range statements in source order
	var stmts []ast.Node
	if syn := t.fn.Syntax(); syn != nil {
		var body ast.Node
		switch s := syn.(type) {
		case *ast.FuncDecl:
			body = s.Body
		case *ast.FuncLit:
			body = s.Body
		}
		if body != nil {
			ast.Inspect(body, func(n ast.Node) bool {
				switch n.(type) {
				case *ast.ForStmt, *ast.RangeStmt:
					stmts = append(stmts, n)
				case *ast.FuncLit:
					return false
				}
				return true
			})
		}
	}
	// innermost loops first: an enclosing loop must take a statement that
	// strictly contains the statements of the loops nested in it (its own
	// header instructions may carry no position)
	var ordered []*loopInfo
	for _, li := range t.loops {
		ordered = append(ordered, li)
	}
	sort.SliceStable(ordered, func(a, b int) bool {
		if len(ordered[a].blocks) != len(ordered[b].blocks) {
			return len(ordered[a].blocks) < len(ordered[b].blocks)
		}
		return ordered[a].header.Index < ordered[b].header.Index
	})
	for _, li := range ordered {
		var best ast.Node
		bestIdx := 0
		for i, s := range stmts {
			ok := true
			any := false
			for b := range li.blocks {
				for _, in := range b.Instrs {
					p := in.Pos()
					if _, isDbg := in.(*ssa.DebugRef); isDbg {
						continue
					}
					if _, isPhi := in.(*ssa.Phi); isPhi {
						continue // a phi carries the position of the variable's declaration
					}
					if !p.IsValid() {
						continue
					}
					any = true
					if p < s.Pos() || p > s.End() {
						ok = false
					}
				}
			}
			if !ok || !any {
				continue
			}
			// must strictly contain the statement of every nested loop
			for _, inner := range ordered {
				if inner == li || inner.stmt == nil || len(inner.blocks) >= len(li.blocks) {
					continue
				}
				nested := true
				for b := range inner.blocks {
					if !li.blocks[b] {
						nested = false
						break
					}
				}
				if nested && (inner.stmt == s || s.Pos() > inner.stmt.Pos() || s.End() < inner.stmt.End()) {
					ok = false
				}
			}
			if !ok {
				continue
			}
			if best == nil || (s.End()-s.Pos()) < (best.End()-best.Pos()) {
				best = s
				bestIdx = i + 1
			}
		}
		li.ordinal = bestIdx
		li.stmt = best
		if t.con != nil && bestIdx > 0 {
			li.spec = t.con.Loops[bestIdx]
		}
	}
	// two headers mapped to the same statement: ambiguous -> drop specs
	seen := map[int]*loopInfo{}
	for _, li := range t.loops {
		if li.ordinal == 0 {
			continue
		}
		if o, ok := seen[li.ordinal]; ok {
			// keep the one with more blocks (outer) for the spec; this should not happen
			t.note("two loop headers map to loop %d", li.ordinal)
			if len(o.blocks) < len(li.blocks) {
				o.spec = nil
				seen[li.ordinal] = li
			} else {
				li.spec = nil
			}
		} else {
			seen[li.ordinal] = li
		}
	}
}

// loopMods: heap components written in the loop (syntactic pre-pass).
func (t *FnTrans) loopMods(li *loopInfo) {
	// ghost components written by site clauses located inside this loop
	if t.con != nil {
		for _, s := range t.con.Sites {
			if len(s.Ghosts) == 0 {
				continue
			}
			inLoop := false
			for b := range li.blocks {
				for _, in := range b.Instrs {
					if t.siteMatchesInstr(s, in) {
						inLoop = true
					}
				}
			}
			if !inLoop {
				continue
			}
			for _, g := range s.Ghosts {
				if i := strings.Index(g.Target, "\""); i >= 0 {
					if j := strings.LastIndex(g.Target, "\""); j > i {
						li.mods["G."+g.Target[i+1:j]] = true
						if strings.HasPrefix(strings.TrimSpace(g.Target), "ghostat(") {
							li.mods["GA."+g.Target[i+1:j]] = true
						}
					}
				}
			}
		}
	}
	for b := range li.blocks {
		for _, in := range b.Instrs {
			switch x := in.(type) {
			case *ssa.Store:
				for _, c := range t.addrComps(x.Addr) {
					li.mods[c] = true
				}
			case *ssa.Alloc, *ssa.MakeMap, *ssa.MakeSlice:
				li.mods["G.ALLOCF"] = true
			case *ssa.MapUpdate:
				li.mods["M:"+typeKey(x.Map.Type())] = true
				// may taint any range over a map of this type
				for _, b2 := range t.fn.Blocks {
					for _, in2 := range b2.Instrs {
						if rg, ok := in2.(*ssa.Range); ok && types.Identical(rg.X.Type().Underlying(), x.Map.Type().Underlying()) {
							if comp, _, _, ok := t.rangeVisited(rg); ok {
								li.mods[strings.Replace(comp, "G.V.", "G.VT.", 1)] = true
							}
						}
					}
				}
			case *ssa.Range:
				if comp, _, _, ok := t.rangeVisited(x); ok {
					li.mods[comp] = true
					li.mods[strings.Replace(comp, "G.V.", "G.VT.", 1)] = true
				}
			case *ssa.Next:
				if rg, ok := x.Iter.(*ssa.Range); ok {
					if comp, _, _, ok := t.rangeVisited(rg); ok {
						li.mods[comp] = true
					}
				}
			case *ssa.Call:
				t.callMods(x.Common(), li)
			case *ssa.Defer:
				t.callMods(x.Common(), li)
			case *ssa.Go, *ssa.Send, *ssa.Select:
				li.modAll = true
			}
		}
	}
}

// addrComps: the heap components a store through this address may write.
func (t *FnTrans) addrComps(addr ssa.Value) []string {
	pt, ok := addr.Type().Underlying().(*types.Pointer)
	if !ok {
		return nil
	}
	var res []string
	var rec func(prefix string, ty types.Type, kind int)
	rec = func(prefix string, ty types.Type, kind int) {
		switch u := ty.Underlying().(type) {
		case *types.Struct:
			for i := 0; i < u.NumFields(); i++ {
				rec("F."+typeKey(ty)+"."+u.Field(i).Name(), u.Field(i).Type(), LField)
			}
		case *types.Array:
			res = append(res, "B."+t.sortKey(u.Elem()))
		default:
			for _, cd := range t.flatComps(ty) {
				res = append(res, prefix+cd.suffix)
			}
		}
	}
	switch a := addr.(type) {
	case *ssa.FieldAddr:
		st := a.X.Type().Underlying().(*types.Pointer).Elem()
		f := st.Underlying().(*types.Struct).Field(a.Field)
		rec("F."+typeKey(st)+"."+f.Name(), f.Type(), LField)
	case *ssa.IndexAddr:
		rec("B."+t.sortKey(pt.Elem()), pt.Elem(), LElem)
	default:
		rec("C."+t.sortKey(pt.Elem()), pt.Elem(), LCell)
	}
	return res
}

func (t *FnTrans) callMods(c *ssa.CallCommon, li *loopInfo) {
	if b, ok := c.Value.(*ssa.Builtin); ok {
		switch b.Name() {
		case "append", "copy":
			// element contents
			if len(c.Args) > 0 {
				if s, ok := c.Args[0].Type().Underlying().(*types.Slice); ok {
					for _, cd := range t.flatComps(s.Elem()) {
						li.mods["B."+t.sortKey(s.Elem())+cd.suffix] = true
					}
					if isStructOrArray(s.Elem()) {
						li.modAll = true
					}
				}
			}
		case "delete":
			if len(c.Args) > 0 {
				li.mods["M:"+typeKey(c.Args[0].Type())] = true
			}
		}
		return
	}
	callee := c.StaticCallee()
	if callee == nil {
		li.modAll = true
		return
	}
	if t.W.isPureFrame(callee) || t.W.intrinsicPure(callee) {
		return
	}
	if con := t.W.contractForView(callee, t.view()); con != nil {
		if con.Pure {
			return
		}
		if len(con.Modifies) > 0 {
			if comps, ok := t.modifiesComps(callee, con); ok {
				for _, c := range comps {
					li.mods[c] = true
				}
				return
			}
			li.modAll = true
			li.ghostAll = true
			return
		}
		li.modAll = true
		for _, g := range t.W.ghostWrites(callee, map[*ssa.Function]bool{}) {
			li.mods["G."+g] = true
			li.mods["GA."+g] = true
		}
		return
	}
	li.modAll = true
}

// ------------------------------------------------------------- driver -----

func (t *FnTrans) topoOrder() []*ssa.BasicBlock {
	// reverse postorder ignoring back edges
	visited := map[*ssa.BasicBlock]bool{}
	var post []*ssa.BasicBlock
	var dfs func(b *ssa.BasicBlock)
	dfs = func(b *ssa.BasicBlock) {
		visited[b] = true
		for _, s := range b.Succs {
			if t.backEdge[[2]int{b.Index, s.Index}] || visited[s] {
				continue
			}
			dfs(s)
		}
		post = append(post, b)
	}
	dfs(t.fn.Blocks[0])
	for i, j := 0, len(post)-1; i < j; i, j = i+1, j-1 {
		post[i], post[j] = post[j], post[i]
	}
	return post
}

func (t *FnTrans) val(v ssa.Value) Val {
	if x, ok := t.vals[v]; ok {
		return x
	}
	switch c := v.(type) {
	case *ssa.Const:
		if c.Value == nil {
			return t.zeroVal(c.Type())
		}
		return t.constVal(c.Value, c.Type())
	case *ssa.Function:
		return Val{K: VFunc, T: c.Type(), Fn: c}
	case *ssa.Global:
		// address of a package-level variable: a fixed reference per global
		name := "global." + sanitize(c.Pkg.Pkg.Name()+"."+c.Name())
		t.declare(name, "Int")
		t.assume("true", sx(">", name, "0"), "address of global is not nil")
		r := scalar(c.Type(), name)
		t.vals[v] = r
		return r
	case *ssa.Builtin:
		return Val{K: VFunc, T: c.Type(), Fn: c}
	case *ssa.FreeVar:
		r := t.havocVal(c.Type(), "freevar."+c.Name())
		t.vals[v] = r
		return r
	}
	// value defined in a block we have not translated (unreachable or back edge)
	r := t.havocVal(v.Type(), "undef."+v.Name())
	t.vals[v] = r
	return r
}

func (t *FnTrans) setVal(v ssa.Value, x Val) {
	if x.T == nil {
		x.T = v.Type()
	}
	defer func() { t.noteRef(t.vals[v]) }()
	// name scalar terms so that queries stay small
	if x.K == VScalar {
		if s := t.mode.scalarSort(v.Type()); s != "" && strings.Contains(x.S, " ") && !strings.HasPrefix(x.S, "(_ bv") {
			n := fmt.Sprintf("v!%s!%d", sanitize(v.Name()), t.nextID())
			t.defs = append(t.defs, fmt.Sprintf("(define-fun %s () %s %s)", n, s, x.S))
			x.S = n
		}
	}
	if x.K == VSlice {
		for i := range x.Sub {
			srt := t.mode.idxSort()
			if i == 0 {
				srt = "Int"
			}
			if strings.Contains(x.Sub[i].S, " ") && !strings.HasPrefix(x.Sub[i].S, "(_ bv") {
				n := fmt.Sprintf("v!%s.%d!%d", sanitize(v.Name()), i, t.nextID())
				t.defs = append(t.defs, fmt.Sprintf("(define-fun %s () %s %s)", n, srt, x.Sub[i].S))
				x.Sub[i].S = n
			}
		}
	}
	t.vals[v] = x
}

func (t *FnTrans) nextID() int { t.counter++; return t.counter }

// mergeVals builds ite-chains for phi nodes.
func (t *FnTrans) mergeVals(ty types.Type, conds []string, vs []Val) Val {
	for i := range vs {
		vs[i] = t.materialize(vs[i], ty)
	}
	k := vs[0].K
	for _, v := range vs {
		if v.K != k {
			t.note("phi of mixed value kinds: abstracted")
			return t.havocVal(ty, "phi")
		}
	}
	switch k {
	case VScalar, VArray:
		term := vs[len(vs)-1].S
		for i := len(vs) - 2; i >= 0; i-- {
			term = ite(conds[i], vs[i].S, term)
		}
		return Val{K: k, T: ty, S: term}
	case VSlice, VStruct, VTuple:
		r := Val{K: k, T: ty}
		for j := range vs[0].Sub {
			var sub []Val
			for _, v := range vs {
				if j >= len(v.Sub) {
					return t.havocVal(ty, "phi")
				}
				sub = append(sub, v.Sub[j])
			}
			var st types.Type
			if vs[0].Sub[j].T != nil {
				st = vs[0].Sub[j].T
			}
			if k == VSlice {
				// components are plain scalar terms
				term := sub[len(sub)-1].S
				for i := len(sub) - 2; i >= 0; i-- {
					term = ite(conds[i], sub[i].S, term)
				}
				r.Sub = append(r.Sub, scalar(nil, term))
			} else {
				r.Sub = append(r.Sub, t.mergeVals(st, conds, sub))
			}
		}
		return r
	case VFunc:
		// all the same function?
		same := true
		for _, v := range vs {
			if v.Fn != vs[0].Fn || len(v.Alts) > 0 {
				same = false
			}
		}
		if same {
			return vs[0]
		}
		// one of several function constants: keep each with the condition
		// under which the ite-chain of the phi selects it
		var alts []FnAlt
		var before []string
		for i, v := range vs {
			eff := and(append(append([]string{}, before...), conds[i])...)
			if i == len(vs)-1 {
				eff = and(before...)
			}
			if len(before) == 0 && i == len(vs)-1 {
				eff = "true"
			}
			if len(v.Alts) > 0 {
				for _, a := range v.Alts {
					alts = append(alts, FnAlt{and(eff, a.Cond), a.Fn})
				}
			} else if f, ok := v.Fn.(*ssa.Function); ok {
				alts = append(alts, FnAlt{eff, f})
			} else {
				return unknown(ty)
			}
			before = append(before, not(conds[i]))
		}
		if len(alts) > 8 {
			return unknown(ty)
		}
		return Val{K: VFunc, T: ty, Alts: alts}
	case VAddr:
		same := true
		for _, v := range vs {
			if v.L.Comp != vs[0].L.Comp || v.L.Kind != vs[0].L.Kind {
				same = false
			}
		}
		if same {
			l := *vs[0].L
			ref := vs[len(vs)-1].L.Ref
			idx := vs[len(vs)-1].L.Idx
			for i := len(vs) - 2; i >= 0; i-- {
				ref = ite(conds[i], vs[i].L.Ref, ref)
				if l.Kind == LElem {
					idx = ite(conds[i], vs[i].L.Idx, idx)
				}
			}
			l.Ref, l.Idx = ref, idx
			return Val{K: VAddr, T: ty, L: &l}
		}
	}
	t.note("phi of unsupported value kind: abstracted")
	return unknown(ty)
}

// Translate runs phase 1 on the function.
func (t *FnTrans) Translate() {
	fn := t.fn
	t.findLoops()
	t.escapeAnalysis()
	// frame of a verified function with a `modifies` list: component-level check
	if t.con != nil && !t.con.Assumed && !t.con.Pure && len(t.con.Modifies) > 0 {
		if comps, ok := t.modifiesComps(fn, t.con); ok {
			t.allowedMods = map[string]bool{}
			for _, c := range comps {
				t.allowedMods[c] = true
			}
		} else {
			t.note("modifies list not resolvable to heap components: frame of this function is not checked")
		}
	}
	for _, li := range t.loops {
		t.loopMods(li)
	}
	order := t.topoOrder()

	// parameters
	entry := t.newEpochState()
	t.entry0 = entry
	// ghost components exist from the start (so that havocs can preserve them)
	var gnames []string
	for g := range t.W.ghosts {
		gnames = append(gnames, g)
	}
	sort.Strings(gnames)
	for _, g := range gnames {
		t.heapGet(entry, "G."+g, arraySort("Int", t.mode.scalarSort(t.W.ghostType(g))))
		// ... and so do the ghost sequences (a havoc that runs before the first
		// use of a sequence in block order must still keep it)
		t.heapGet(entry, "GA."+g, arraySort("Int", arraySort(t.mode.idxSort(), t.mode.scalarSort(t.W.ghostType(g)))))
	}
	// (the allocation frontier G.ALLOCF is created on first use: functions that
	// neither allocate nor speak about allocation keep their queries free of
	// integer/array terms, which matters for pure bit-vector problems)
	for _, p := range fn.Params {
		v := t.havocParam(p)
		t.vals[p] = v
		t.noteRef(v)
		t.params[p.Name()] = v
		if t.con != nil && v.K == VScalar {
			for _, pp := range t.con.PrivateParams {
				if pp == p.Name() {
					if why, ok := t.checkPrivateParam(p); ok {
						t.privateRefs[v.S] = true
						t.note("parameter %s: its target is written only by this function while it runs (%s)", p.Name(), why)
					} else {
						t.staleClauses = append(t.staleClauses, fmt.Sprintf("privateparam %s: %s", p.Name(), why))
					}
				}
			}
		}
	}
	// two pointer parameters whose pointee types are different non-composite
	// types (no struct, no array: no first-field / first-element aliasing)
	// cannot hold the same address in a Go program without unsafe
	for i, p := range fn.Params {
		pi, ok := p.Type().Underlying().(*types.Pointer)
		if !ok || !isCellType(pi.Elem()) || t.vals[p].K != VScalar {
			continue
		}
		for _, q := range fn.Params[i+1:] {
			qi, ok := q.Type().Underlying().(*types.Pointer)
			if !ok || !isCellType(qi.Elem()) || t.vals[q].K != VScalar || types.Identical(pi.Elem(), qi.Elem()) {
				continue
			}
			t.assume("true", or(eq(t.vals[p].S, "0"), not(eq(t.vals[p].S, t.vals[q].S))), "pointers to variables of different non-composite types are distinct")
		}
	}
	for _, fv := range fn.FreeVars {
		v := t.havocVal(fv.Type(), "fv."+fv.Name())
		t.vals[fv] = v
		t.params[fv.Name()] = v
		if t.con != nil && t.con.PrivateCaptures && v.K == VScalar {
			if _, isPtr := fv.Type().Underlying().(*types.Pointer); isPtr {
				t.privateRefs[v.S] = true
				t.note("captured variable %s is assumed to be written only by this closure while it runs (privatecaptures)", fv.Name())
			}
		}
	}
	t.entrySt[fn.Blocks[0]] = entry.clone() // the entry block mutates its own copy; entry0 stays the pre-state
	t.reach[fn.Blocks[0]] = "true"

	// requires -> assumptions
	if t.con != nil {
		for _, c := range t.con.Requires {
			env := t.entryEnv(entry)
			t.assumps = append(t.assumps, Assump{Guard: "true", F: Formula{Clause: c, Env: env}, Why: "requires"})
		}
		for _, c := range t.con.GhostInit {
			env := t.entryEnv(entry)
			t.assumps = append(t.assumps, Assump{Guard: "true", F: Formula{Clause: c, Env: env}, Why: "initial value of the function's own ghost instrumentation"})
		}
		if len(t.con.RecvInv) > 0 && !t.con.Assumed {
			if why, ok := t.checkRecvInvClosed(); ok {
				t.note("representation invariant of the receiver assumed at entry and proved at every return (%s)", why)
				for _, c := range t.con.RecvInv {
					env := t.entryEnv(entry)
					t.assumps = append(t.assumps, Assump{Guard: "true", F: Formula{Clause: c, Env: env}, Why: "representation invariant of the receiver's type (closed: every writer of its fields proves it)"})
				}
			} else {
				t.staleClauses = append(t.staleClauses, "recvinv: "+why)
			}
		}
	}
	// vacuity canary after preconditions
	t.canary("entry", "true")

	for _, b := range order {
		t.block(b)
	}
}

func (t *FnTrans) canary(where, guard string) {
	o := &Obl{Name: t.oblName("canary", where), Kind: "canary", Guard: guard, F: Formula{Raw: "false"}, NAssume: len(t.assumps), Fn: t.fn, Canary: true}
	t.obls = append(t.obls, o)
}

func (t *FnTrans) havocParam(p *ssa.Parameter) Val {
	ty := p.Type()
	name := "p!" + sanitize(p.Name())
	if s := t.mode.scalarSort(ty); s != "" {
		v := scalar(ty, t.declare(name, s))
		t.assume("true", t.typeAssume(v), "parameter type range")
		return v
	}
	switch ty.Underlying().(type) {
	case *types.Slice:
		i := t.mode.idxSort()
		v := Val{K: VSlice, T: ty, Sub: []Val{scalar(nil, t.declare(name+".base", "Int")), scalar(nil, t.declare(name+".off", i)), scalar(nil, t.declare(name+".len", i)), scalar(nil, t.declare(name+".cap", i))}}
		t.assume("true", t.typeAssume(v), "parameter slice header well-formed")
		t.assume("true", sx(">=", v.Sub[0].S, "0"), "slice base")
		return v
	}
	return t.havocVal(ty, "p."+p.Name())
}

func (t *FnTrans) entryEnv(st *HeapState) *Env {
	e := &Env{t: t, st: st, pkg: t.pkg, vars: map[string]Val{}}
	for k, v := range t.params {
		e.vars[k] = v
	}
	e.old = e
	return e
}

func (t *FnTrans) block(b *ssa.BasicBlock) {
	fn := t.fn
	var st *HeapState
	var reach string
	li := t.loops[b]

	if b == fn.Blocks[0] && li == nil {
		st = t.entrySt[b]
		reach = "true"
	} else {
		// merge forward predecessors
		var ins []mergeInput
		var conds []string
		var preds []*ssa.BasicBlock
		if b == fn.Blocks[0] {
			ins = append(ins, mergeInput{"true", t.entrySt[b]})
			conds = append(conds, "true")
			preds = append(preds, nil)
		}
		for _, p := range b.Preds {
			if t.backEdge[[2]int{p.Index, b.Index}] {
				continue
			}
			ec, ok := t.edgeCond[[2]int{p.Index, b.Index}]
			if !ok {
				continue // predecessor unreachable / not translated
			}
			ins = append(ins, mergeInput{ec, t.exitSt[p]})
			conds = append(conds, ec)
			preds = append(preds, p)
		}
		if len(ins) == 0 {
			// unreachable block
			t.reach[b] = "false"
			t.entrySt[b] = t.newEpochState()
			t.exitSt[b] = t.entrySt[b]
			return
		}
		reach = t.define(fmt.Sprintf("R.%d", b.Index), "Bool", or(conds...))
		if len(ins) == 1 {
			st = ins[0].st.clone()
		} else {
			st = &HeapState{cur: map[string]string{}, merge: ins, pending: map[string]int{}, pendingPrefix: map[string]int{}}
		}
		// phis (non-header): ite over incoming edges
		if li == nil {
			for _, in := range b.Instrs {
				phi, ok := in.(*ssa.Phi)
				if !ok {
					break
				}
				var vs []Val
				for _, p := range preds {
					for j, bp := range b.Preds {
						if bp == p {
							vs = append(vs, t.val(phi.Edges[j]))
							break
						}
					}
				}
				t.setVal(phi, t.mergeVals(phi.Type(), append([]string{}, conds...), vs))
			}
		} else {
			// loop header: check invariant on entry edges, then havoc
			t.loopHeader(b, li, preds, conds, ins)
			// state after havoc
			st = t.havocLoopState(st, li)
		}
	}
	t.reach[b] = reach
	t.entrySt[b] = st.clone()
	if li != nil {
		// assume invariants at the header
		env := t.pointEnv(b, t.firstNonPhi(b), st.clone(), nil)
		env.guard = reach
		if li.spec != nil {
			for _, c := range li.spec.Invariants {
				t.assumps = append(t.assumps, Assump{Guard: reach, F: Formula{Clause: c, Env: env}, Why: "loop invariant"})
			}
			if li.spec.Decreases != nil {
				// termination measure: its value at the head of this iteration
				func() {
					defer func() {
						if r := recover(); r != nil {
							if ee, ok := r.(*exprError); ok {
								t.staleClauses = append(t.staleClauses, fmt.Sprintf("decreases: %s:%d: %s", li.spec.Decreases.File, li.spec.Decreases.Line, ee.msg))
								return
							}
							panic(r)
						}
					}()
					if term, ok := t.toIdx(env.eval(li.spec.Decreases.Expr)); ok {
						li.decHead = t.define(fmt.Sprintf("dec.loop%d", li.ordinal), t.mode.idxSort(), term)
					}
				}()
			}
		}
		t.canary(fmt.Sprintf("loop%d", li.ordinal), reach)
	}

	for idx, in := range b.Instrs {
		t.instr(b, idx, in, st, reach)
	}
	t.exitSt[b] = st
}

func (t *FnTrans) firstNonPhi(b *ssa.BasicBlock) int {
	for i, in := range b.Instrs {
		if _, ok := in.(*ssa.Phi); !ok {
			return i
		}
	}
	return len(b.Instrs)
}

func (t *FnTrans) loopHeader(b *ssa.BasicBlock, li *loopInfo, preds []*ssa.BasicBlock, conds []string, ins []mergeInput) {
	// invariant initialisation: for each entry edge
	if li.spec != nil {
		for k, p := range preds {
			subst := map[ssa.Value]Val{}
			for _, in := range b.Instrs {
				phi, ok := in.(*ssa.Phi)
				if !ok {
					break
				}
				for j, bp := range b.Preds {
					if bp == p {
						subst[phi] = t.val(phi.Edges[j])
						break
					}
				}
			}
			env := t.pointEnv(b, t.firstNonPhi(b), ins[k].st.clone(), subst)
			env.guard = conds[k]
			for _, c := range li.spec.Invariants {
				lbl := c.Label
				if lbl == "" {
					lbl = normText(c.Text)
				}
				t.addObl("inv-init", fmt.Sprintf("loop%d:%s", li.ordinal, lbl), conds[k], Formula{Clause: c, Env: env}, token.NoPos, c.Text)
			}
		}
	}
	// havoc header phis
	for _, in := range b.Instrs {
		phi, ok := in.(*ssa.Phi)
		if !ok {
			break
		}
		name := phi.Comment
		if name == "" {
			name = phi.Name()
		}
		t.vals[phi] = t.havocVal(phi.Type(), "loop."+name)
	}
}

func (t *FnTrans) havocLoopState(st *HeapState, li *loopInfo) *HeapState {
	if li.modAll {
		t.note("loop %d: whole heap havocked at the loop head (unknown call or unmodelled effect in the body), except private objects' components the loop does not write", li.ordinal)
		ns := t.newEpochState()
		t.preserveLocalsExcept(st, ns, li.mods)
		// ghost state changes only through contracts and site clauses: keep what the loop does not write
		var gs []string
		for c := range t.compSorts {
			if (strings.HasPrefix(c, "G.") || strings.HasPrefix(c, "GA.")) && !li.mods[c] && !li.ghostAll {
				gs = append(gs, c)
			}
		}
		sort.Strings(gs)
		for _, c := range gs {
			ns.cur[c] = t.heapGet(st, c, t.compSorts[c])
		}
		return ns
	}
	if len(li.mods) == 0 {
		return st
	}
	ns := st.clone()
	var ks []string
	for c := range li.mods {
		ks = append(ks, c)
	}
	sort.Strings(ks)
	for _, c := range ks {
		t.epochs++
		if strings.HasPrefix(c, "M:") {
			pre := "M." + c[2:] + "."
			for k := range ns.cur {
				if strings.HasPrefix(k, pre) {
					delete(ns.cur, k)
				}
			}
			ns.pendingPrefix[pre] = t.epochs
			continue
		}
		delete(ns.cur, c)
		ns.pending[c] = t.epochs
	}
	return ns
}

// havocAll: everything may have changed, except objects this function
// allocated and never let escape (their fields, elements and map contents are
// carried over).
func (t *FnTrans) havocAll(st *HeapState) *HeapState {
	ns := t.newEpochState()
	t.preserveLocals(st, ns)
	return ns
}

func (t *FnTrans) preserveLocals(st, ns *HeapState) {
	t.preserveLocalsExcept(st, ns, nil)
}

func (t *FnTrans) preserveLocalsExcept(st, ns *HeapState, mods map[string]bool) {
	if len(t.privateRefs) == 0 {
		return
	}
	var comps []string
	for c := range t.compSorts {
		if strings.HasPrefix(c, "G.") || strings.HasPrefix(c, "GA.") {
			continue
		}
		if mods[c] {
			continue
		}
		if strings.HasPrefix(c, "M.") {
			skip := false
			for m := range mods {
				if strings.HasPrefix(m, "M:") && strings.HasPrefix(c, "M."+m[2:]+".") {
					skip = true
				}
			}
			if skip {
				continue
			}
		}
		comps = append(comps, c)
	}
	sort.Strings(comps)
	var refs []string
	for r := range t.privateRefs {
		refs = append(refs, r)
	}
	sort.Strings(refs)
	for _, c := range comps {
		srt := t.compSorts[c]
		old := t.heapGet(st, c, srt)
		cur := t.heapGet(ns, c, srt)
		for _, r := range refs {
			cur = sx("store", cur, r, sx("select", old, r))
		}
		t.heapSet(ns, c, srt, cur)
	}
}

// escapeAnalysis computes the allocation sites whose objects stay private to
// this function: never passed to a call that may retain or write them, never
// stored into memory that is not itself private, never captured.
func (t *FnTrans) escapeAnalysis() {
	t.privateAlloc = map[ssa.Value]bool{}
	isAllocSite := func(v ssa.Value) bool {
		switch v.(type) {
		case *ssa.Alloc, *ssa.MakeMap, *ssa.MakeSlice:
			return true
		}
		return false
	}
	var root func(v ssa.Value, depth int) ssa.Value
	root = func(v ssa.Value, depth int) ssa.Value {
		if depth > 30 {
			return nil
		}
		switch a := v.(type) {
		case *ssa.Alloc, *ssa.MakeMap, *ssa.MakeSlice:
			return v
		case *ssa.FieldAddr:
			return root(a.X, depth+1)
		case *ssa.IndexAddr:
			return root(a.X, depth+1)
		case *ssa.Slice:
			return root(a.X, depth+1)
		case *ssa.ChangeType:
			return root(a.X, depth+1)
		case *ssa.Phi:
			// a phi of one allocation and nil constants aliases that allocation
			var only ssa.Value
			for _, e := range a.Edges {
				if c, ok := e.(*ssa.Const); ok && c.Value == nil {
					continue
				}
				if e == v {
					continue
				}
				r := root(e, depth+1)
				if r == nil {
					return nil
				}
				if only != nil && only != r {
					return nil
				}
				only = r
			}
			return only
		}
		return nil
	}
	escaping := map[ssa.Value]bool{}
	storedInto := map[ssa.Value][]ssa.Value{} // alloc -> containers it was stored into
	for _, b := range t.fn.Blocks {
		for _, in := range b.Instrs {
			v, ok := in.(ssa.Value)
			if ok && isAllocSite(v) {
				t.privateAlloc[v] = true
			}
		}
	}
	mark := func(v ssa.Value) {
		if r := root(v, 0); r != nil {
			escaping[r] = true
		}
	}
	for _, b := range t.fn.Blocks {
		for _, in := range b.Instrs {
			switch x := in.(type) {
			case *ssa.Store:
				if r := root(x.Val, 0); r != nil {
					if c := root(x.Addr, 0); c != nil {
						storedInto[r] = append(storedInto[r], c)
					} else {
						escaping[r] = true
					}
				}
			case *ssa.MapUpdate:
				for _, val := range []ssa.Value{x.Key, x.Value} {
					if r := root(val, 0); r != nil {
						if c := root(x.Map, 0); c != nil {
							storedInto[r] = append(storedInto[r], c)
						} else {
							escaping[r] = true
						}
					}
				}
			case *ssa.Call:
				c := x.Common()
				pure := false
				if bi, ok := c.Value.(*ssa.Builtin); ok {
					switch bi.Name() {
					case "len", "cap", "copy", "delete", "min", "max", "print", "println":
						pure = true
					case "append":
						// the appended slice may alias the result; treat operands as flowing into the result
						pure = false
					}
				} else if callee := c.StaticCallee(); callee != nil {
					if t.W.intrinsicPure(callee) {
						pure = true
					}
					if con := t.W.contractForView(callee, t.view()); con != nil && con.Pure {
						pure = true
					}
				}
				if !pure {
					for _, a := range c.Args {
						mark(a)
					}
					if c.IsInvoke() {
						mark(c.Value)
					}
				}
			case *ssa.Defer:
				for _, a := range x.Common().Args {
					mark(a)
				}
			case *ssa.Go:
				for _, a := range x.Common().Args {
					mark(a)
				}
			case *ssa.MakeClosure:
				if t.closureRunsInlineOnly(x) {
					// the closure is deferred and translated inline at every
					// exit it runs at; its body only loads from and stores to
					// the captured cells, so capturing exposes them to nobody
					continue
				}
				for _, bnd := range x.Bindings {
					mark(bnd)
				}
			case *ssa.MakeInterface:
				mark(x.X)
			case *ssa.Phi:
				if root(x, 0) == nil {
					// merges different objects: give up on all of them
					for _, e := range x.Edges {
						mark(e)
					}
				}
			case *ssa.Send:
				mark(x.X)
			case *ssa.Return:
				// returning does not expose the object before the function ends
			case *ssa.Extract, *ssa.Field:
			}
		}
	}
	// propagate through containers
	for changed := true; changed; {
		changed = false
		for a, cs := range storedInto {
			if escaping[a] {
				continue
			}
			for _, c := range cs {
				if escaping[c] {
					escaping[a] = true
					changed = true
					break
				}
			}
		}
	}
	for a := range t.privateAlloc {
		if escaping[a] {
			delete(t.privateAlloc, a)
		}
	}
}

// havocAllKeepGhost: unknown (contract-less) code cannot touch ghost state.
func (t *FnTrans) havocAllKeepGhost(st *HeapState) *HeapState {
	ns := t.newEpochState()
	t.preserveLocals(st, ns)
	var ks []string
	for c := range t.compSorts {
		if strings.HasPrefix(c, "G.") || strings.HasPrefix(c, "GA.") {
			ks = append(ks, c)
		}
	}
	sort.Strings(ks)
	for _, c := range ks {
		ns.cur[c] = t.heapGet(st, c, t.compSorts[c])
	}
	return ns
}

// modifiesComps resolves a contract's `modifies` list to heap component
// names syntactically (for the loop pre-pass).  ok=false when an item cannot
// be resolved.
func (t *FnTrans) modifiesComps(callee *ssa.Function, con *Contract) ([]string, bool) {
	sig := callee.Signature
	paramType := func(name string) types.Type {
		if r := sig.Recv(); r != nil && r.Name() == name {
			return r.Type()
		}
		for i := 0; i < sig.Params().Len(); i++ {
			if sig.Params().At(i).Name() == name {
				return sig.Params().At(i).Type()
			}
		}
		return nil
	}
	// pathType: type of a parameter or of a dotted field path rooted at one
	pathType := func(path string) types.Type {
		parts := strings.Split(path, ".")
		cur := paramType(parts[0])
		for pi := 1; pi < len(parts) && cur != nil; pi++ {
			sty := cur
			if ptr, ok := cur.Underlying().(*types.Pointer); ok {
				sty = ptr.Elem()
			}
			st, ok := sty.Underlying().(*types.Struct)
			if !ok {
				return nil
			}
			cur = nil
			for i := 0; i < st.NumFields(); i++ {
				if st.Field(i).Name() == parts[pi] {
					cur = st.Field(i).Type()
				}
			}
		}
		return cur
	}
	var res []string
	for _, item := range con.Modifies {
		item = strings.TrimSpace(item)
		switch {
		case item == "all":
			return nil, false
		case item == "allbytes":
			res = append(res, "B."+t.sortKey(types.Typ[types.Uint8]))
		case strings.HasPrefix(item, "fieldsof(") && strings.HasSuffix(item, ")"):
			var pkg *types.Package
			if callee.Pkg != nil {
				pkg = callee.Pkg.Pkg
			}
			sty := t.W.structTypeByName(pkg, strings.TrimSpace(item[len("fieldsof("):len(item)-1]))
			if sty == nil {
				return nil, false
			}
			su := sty.Underlying().(*types.Struct)
			for i := 0; i < su.NumFields(); i++ {
				for _, cd := range t.flatComps(su.Field(i).Type()) {
					res = append(res, "F."+typeKey(sty)+"."+su.Field(i).Name()+cd.suffix)
				}
			}
		case strings.HasPrefix(item, "elemsof(") && strings.HasSuffix(item, ")"):
			var pkg *types.Package
			if callee.Pkg != nil {
				pkg = callee.Pkg.Pkg
			}
			el := t.W.typeByText(pkg, strings.TrimSpace(item[len("elemsof("):len(item)-1]))
			if el == nil {
				return nil, false
			}
			cds := t.flatComps(el)
			if cds == nil {
				return nil, false
			}
			for _, cd := range cds {
				res = append(res, "B."+t.sortKey(el)+cd.suffix)
			}
		case strings.HasPrefix(item, "mapof(") && strings.HasSuffix(item, ")"):
			pt := pathType(strings.TrimSpace(item[len("mapof(") : len(item)-1]))
			if pt == nil {
				return nil, false
			}
			if _, ok := pt.Underlying().(*types.Map); !ok {
				return nil, false
			}
			res = append(res, "M:"+typeKey(pt))
		case strings.HasPrefix(item, "ghostseq("):
			res = append(res, "GA."+strings.Trim(strings.TrimSuffix(strings.TrimPrefix(item, "ghostseq("), ")"), "\" "))
		case strings.HasPrefix(item, "ghostat("):
			j := strings.LastIndex(item, "\"")
			if j <= 0 {
				return nil, false
			}
			i := strings.LastIndex(item[:j], "\"")
			if i < 0 {
				return nil, false
			}
			res = append(res, "GA."+item[i+1:j])
		case strings.HasPrefix(item, "ghost("):
			i := strings.Index(item, "\"")
			j := strings.LastIndex(item, "\"")
			if i < 0 || j <= i {
				return nil, false
			}
			res = append(res, "G."+item[i+1:j])
		case strings.HasPrefix(item, "contents(") && strings.HasSuffix(item, ")"):
			pt := pathType(strings.TrimSpace(item[len("contents(") : len(item)-1]))
			if pt == nil {
				return nil, false
			}
			switch u := pt.Underlying().(type) {
			case *types.Slice:
				cds := t.flatComps(u.Elem())
				if cds == nil {
					return nil, false
				}
				for _, cd := range cds {
					res = append(res, "B."+t.sortKey(u.Elem())+cd.suffix)
				}
			default:
				return nil, false
			}
		case strings.Count(item, ".") >= 1 && !strings.ContainsAny(item, "()[]*"):
			parts := strings.Split(item, ".")
			cur := paramType(parts[0])
			if cur == nil {
				return nil, false
			}
			for pi := 1; pi < len(parts); pi++ {
				var sty types.Type
				if ptr, ok := cur.Underlying().(*types.Pointer); ok {
					sty = ptr.Elem()
				} else {
					sty = cur
				}
				st, ok := sty.Underlying().(*types.Struct)
				if !ok {
					return nil, false
				}
				found := false
				for i := 0; i < st.NumFields(); i++ {
					if st.Field(i).Name() != parts[pi] {
						continue
					}
					found = true
					if pi == len(parts)-1 {
						base := "F." + typeKey(sty) + "." + parts[pi]
						cds := t.flatComps(st.Field(i).Type())
						if cds == nil {
							return nil, false
						}
						for _, cd := range cds {
							res = append(res, base+cd.suffix)
						}
					}
					cur = st.Field(i).Type()
				}
				if !found {
					return nil, false
				}
			}
		default:
			return nil, false
		}
	}
	return res, true
}

// checkPrivateParam decides the `privateparam` clause for pointer parameter p
// of an unexported function: every static call of the function in its package
// passes, for p, the address of a local variable (an *ssa.Alloc) whose only
// other uses are loads and stores — so no callee of this function can hold
// another reference to the cell.  A call through a function value cannot
// exist for a method/function that is never used as a value; uses as a value
// fail the check.
func (t *FnTrans) checkPrivateParam(p *ssa.Parameter) (string, bool) {
	fn := t.fn
	if fn.Object() == nil || fn.Object().Exported() {
		return "exported function: callers outside the package are not visible", false
	}
	idx := -1
	for i, q := range fn.Params {
		if q == p {
			idx = i
		}
	}
	if idx < 0 {
		return "no such parameter", false
	}
	pkg := fn.Pkg
	if pkg == nil {
		return "no package", false
	}
	// inside the function the pointer itself is only dereferenced (or
	// captured by the function's own closures), never handed to a callee
	var cells []ssa.Value
	cells = append(cells, p)
	for i := 0; i < len(cells); i++ {
		refs := cells[i].Referrers()
		if refs == nil {
			continue
		}
		for _, r := range *refs {
			switch u := r.(type) {
			case *ssa.UnOp, *ssa.DebugRef, *ssa.MakeClosure:
			case *ssa.Store:
				if u.Val == cells[i] {
					al, ok := u.Addr.(*ssa.Alloc)
					if !ok {
						return "the function stores the pointer somewhere other than a capture cell", false
					}
					if i == 0 {
						cells = append(cells, al)
					}
				}
			default:
				return "the function hands the pointer to something other than a load or a store", false
			}
		}
	}
	var fns []*ssa.Function
	var walk func(f *ssa.Function)
	walk = func(f *ssa.Function) {
		fns = append(fns, f)
		for _, a := range f.AnonFuncs {
			walk(a)
		}
	}
	for _, m := range pkg.Members {
		if f, ok := m.(*ssa.Function); ok {
			walk(f)
		}
		if ty, ok := m.(*ssa.Type); ok {
			for _, tt := range []types.Type{ty.Type(), types.NewPointer(ty.Type())} {
				ms := pkg.Prog.MethodSets.MethodSet(tt)
				for i := 0; i < ms.Len(); i++ {
					if f := pkg.Prog.MethodValue(ms.At(i)); f != nil && f.Pkg == pkg {
						walk(f)
					}
				}
			}
		}
	}
	seen := map[*ssa.Function]bool{}
	calls := 0
	for _, f := range fns {
		if seen[f] {
			continue
		}
		seen[f] = true
		for _, b := range f.Blocks {
			for _, in := range b.Instrs {
				// any use of fn as a value (closure, method value, go/defer through a value) defeats the check
				if ci, ok := in.(ssa.CallInstruction); ok && ci.Common().StaticCallee() == fn {
					calls++
					a := ci.Common().Args[idx]
					al, ok := a.(*ssa.Alloc)
					if !ok {
						return fmt.Sprintf("call in %s passes something other than the address of a local", f.Name()), false
					}
					for _, r := range *al.Referrers() {
						switch u := r.(type) {
						case *ssa.Store:
							if u.Val == al {
								return fmt.Sprintf("in %s the address of the local is stored somewhere", f.Name()), false
							}
						case *ssa.UnOp:
						case *ssa.DebugRef:
						case ssa.CallInstruction:
							if u.Common().StaticCallee() != fn {
								return fmt.Sprintf("in %s the local is also passed to another function", f.Name()), false
							}
							for j, x := range u.Common().Args {
								if x == al && j != idx {
									return "the local is passed for another parameter as well", false
								}
							}
						default:
							return fmt.Sprintf("in %s the address of the local has a use that is not a load, a store or this call", f.Name()), false
						}
					}
					continue
				}
				var ops [16]*ssa.Value
				for _, op := range in.Operands(ops[:0]) {
					if op != nil && *op == ssa.Value(fn) {
						if ci, ok := in.(ssa.CallInstruction); ok && ci.Common().Value == ssa.Value(fn) {
							continue
						}
						return fmt.Sprintf("%s uses the function as a value", f.Name()), false
					}
				}
			}
		}
	}
	if calls == 0 {
		return "no call of the function found in its package", false
	}
	return fmt.Sprintf("checked at all %d call(s) in the package: the argument is the address of a local that is otherwise only loaded and stored", calls), true
}

// closureRunsInlineOnly: the closure value is used by exactly one defer
// statement, is translated inline at every function exit that defer reaches
// (same conditions as in the RunDefers case), and inside its body every
// captured variable is only loaded from or stored to (never stored as a value
// or passed on).
func (t *FnTrans) closureRunsInlineOnly(mc *ssa.MakeClosure) bool {
	fn, ok := mc.Fn.(*ssa.Function)
	if !ok || !inlinableClosure(fn) {
		return false
	}
	refs := mc.Referrers()
	if refs == nil {
		return false
	}
	var d *ssa.Defer
	for _, r := range *refs {
		switch u := r.(type) {
		case *ssa.DebugRef:
		case *ssa.Defer:
			if d != nil || u.Common().Value != ssa.Value(mc) || len(u.Common().Args) != 0 {
				return false
			}
			d = u
		default:
			return false
		}
	}
	if d == nil {
		return false
	}
	for _, b := range t.fn.Blocks {
		for _, in := range b.Instrs {
			if _, ok := in.(*ssa.RunDefers); ok && blockReaches(d.Block(), b) && !d.Block().Dominates(b) {
				return false
			}
		}
	}
	for _, fv := range fn.FreeVars {
		if fv.Referrers() == nil {
			continue
		}
		for _, r := range *fv.Referrers() {
			switch u := r.(type) {
			case *ssa.UnOp, *ssa.DebugRef:
			case *ssa.Store:
				if u.Val == ssa.Value(fv) {
					return false
				}
			default:
				return false
			}
		}
	}
	return true
}

// isCellType: a type whose variables are neither structs nor arrays (so a
// pointer to one is never also a pointer to a field or element at offset 0 of
// a variable of another type).
func isCellType(ty types.Type) bool {
	switch ty.Underlying().(type) {
	case *types.Struct, *types.Array, *types.Interface:
		return false
	}
	return true
}

// checkRecvInvClosed decides whether the `recvinv` clause of this method may be
// assumed at entry: the receiver is a pointer to a named struct type T, all
// fields of T are unexported (no other package can write them), and every
// function of T's package that stores to a field of a T (through any *T, a
// composite literal included) is itself a contracted, non-assumed function
// with a recvinv clause — so every writer re-establishes the invariant, and
// the zero value is the only other way a T comes into being.
func (t *FnTrans) checkRecvInvClosed() (string, bool) {
	fn := t.fn
	if fn.Signature.Recv() == nil || len(fn.Params) == 0 {
		return "not a method", false
	}
	pt, ok := fn.Params[0].Type().Underlying().(*types.Pointer)
	if !ok {
		return "receiver is not a pointer", false
	}
	named, ok := pt.Elem().(*types.Named)
	if !ok {
		return "receiver type is not a named type", false
	}
	st, ok := named.Underlying().(*types.Struct)
	if !ok {
		return "receiver type is not a struct", false
	}
	for i := 0; i < st.NumFields(); i++ {
		if st.Field(i).Exported() {
			return fmt.Sprintf("field %s of %s is exported: other packages can write it", st.Field(i).Name(), named.Obj().Name()), false
		}
	}
	pkg := fn.Pkg
	if pkg == nil {
		return "no package", false
	}
	// A SHALLOW invariant speaks only about fields of T themselves and about
	// which entries a map/slice field has / how long a field is (an element
	// may be compared, e.g. with nil, but nothing is read THROUGH an element).  For such an invariant only the functions
	// that use one of the fields it names matter, and a function that only
	// reads those fields (load, then look-up / range / len / comparison) cannot
	// break it.  Any other invariant keeps the strict rule: every function
	// that touches any field of T proves it or is verified pure.
	invText := ""
	for _, c := range t.con.RecvInv {
		invText += " " + c.Text
	}
	shallow := !regexp.MustCompile(`\.\w+\s*\[[^\]]*\]\s*[.\[]`).MatchString(invText) && !strings.Contains(invText, "contents(") && !strings.Contains(invText, "*")
	mentioned := map[int]bool{}
	if shallow {
		for i := 0; i < st.NumFields(); i++ {
			if regexp.MustCompile(`\.` + st.Field(i).Name() + `\b`).MatchString(invText) {
				mentioned[i] = true
			}
		}
		if len(mentioned) == 0 {
			shallow = false
		}
	}
	readOnlyUse := func(fa *ssa.FieldAddr) bool {
		refs := fa.Referrers()
		if refs == nil {
			return false
		}
		for _, r := range *refs {
			switch u := r.(type) {
			case *ssa.DebugRef:
			case *ssa.UnOp:
				if u.Op != token.MUL {
					return false
				}
				if _, basic := u.Type().Underlying().(*types.Basic); basic {
					continue
				}
				vrefs := u.Referrers()
				if vrefs == nil {
					return false
				}
				for _, vr := range *vrefs {
					switch w := vr.(type) {
					case *ssa.DebugRef:
					case *ssa.Lookup:
						if w.X != u {
							return false
						}
					case *ssa.Range:
					case *ssa.BinOp:
						if w.Op != token.EQL && w.Op != token.NEQ {
							return false
						}
					case *ssa.Call:
						b, ok := w.Call.Value.(*ssa.Builtin)
						if !ok || (b.Name() != "len" && b.Name() != "cap") {
							return false
						}
					default:
						return false
					}
				}
			default:
				return false
			}
		}
		return true
	}
	var tops []*ssa.Function
	for _, m := range pkg.Members {
		if f, ok := m.(*ssa.Function); ok {
			tops = append(tops, f)
		}
		if ty, ok := m.(*ssa.Type); ok {
			for _, tt := range []types.Type{ty.Type(), types.NewPointer(ty.Type())} {
				ms := pkg.Prog.MethodSets.MethodSet(tt)
				for i := 0; i < ms.Len(); i++ {
					if f := pkg.Prog.MethodValue(ms.At(i)); f != nil && f.Pkg == pkg && f.Synthetic == "" {
						tops = append(tops, f)
					}
				}
			}
		}
	}
	seen := map[*ssa.Function]bool{}
	var writers []string
	var bad string
	var visit func(top, f *ssa.Function)
	visit = func(top, f *ssa.Function) {
		for _, b := range f.Blocks {
			for _, in := range b.Instrs {
				// every function that touches a field of T (and could so reach
				// the memory the invariant speaks about: the fields and what
				// they refer to) either proves the invariant itself or is
				// verified to write nothing (pure)
				fa, ok := in.(*ssa.FieldAddr)
				if !ok {
					continue
				}
				xp, ok := fa.X.Type().Underlying().(*types.Pointer)
				if !ok || !types.Identical(xp.Elem(), named) {
					continue
				}
				if shallow && (!mentioned[fa.Field] || readOnlyUse(fa)) {
					continue
				}
				con := t.W.contractFor(top)
				if con != nil && !con.Assumed && con.Establishes && len(con.RecvInv) == 0 {
					// a constructor: it may only write fields of objects it
					// allocated itself, and proves the invariant of its result
					if _, fresh := fa.X.(*ssa.Alloc); fresh {
						found := false
						for _, w := range writers {
							if w == top.Name() {
								found = true
							}
						}
						if !found {
							writers = append(writers, top.Name())
						}
						continue
					}
					bad = fmt.Sprintf("%s (establishes) writes %s.%s of an object it did not allocate", top.Name(), named.Obj().Name(), st.Field(fa.Field).Name())
					return
				}
				if con == nil || con.Assumed || (len(con.RecvInv) == 0 && !con.Pure) {
					bad = fmt.Sprintf("%s uses %s.%s and neither proves the invariant nor is verified pure", top.Name(), named.Obj().Name(), st.Field(fa.Field).Name())
					return
				}
				if con.Pure {
					continue
				}
				found := false
				for _, w := range writers {
					if w == top.Name() {
						found = true
					}
				}
				if !found {
					writers = append(writers, top.Name())
				}
			}
		}
		for _, a := range f.AnonFuncs {
			visit(top, a)
		}
	}
	for _, f := range tops {
		if seen[f] {
			continue
		}
		seen[f] = true
		visit(f, f)
		if bad != "" {
			return bad, false
		}
	}
	sort.Strings(writers)
	if shallow {
		var fs []string
		for i := 0; i < st.NumFields(); i++ {
			if mentioned[i] {
				fs = append(fs, st.Field(i).Name())
			}
		}
		return fmt.Sprintf("closedness checked: all fields of %s are unexported; the invariant is shallow over %s; the functions of its package that use those fields only read them, are verified pure, or are %s, each of which proves the invariant", named.Obj().Name(), strings.Join(fs, ", "), strings.Join(writers, ", ")), true
	}
	return fmt.Sprintf("closedness checked: all fields of %s are unexported; the functions of its package that use them are verified pure or are %s, each of which proves the invariant", named.Obj().Name(), strings.Join(writers, ", ")), true
}
