package main

// SMT-LIB term construction helpers and the mapping from Go types to SMT
// sorts.  Terms are plain strings (s-expressions).

import (
	"fmt"
	"go/constant"
	"go/types"
	"math"
	"math/big"
	"strings"
)

type Mode int

const (
	ModeBV  Mode = iota // Go ints are bit-vectors of their width
	ModeInt             // Go ints are mathematical ints + explicit wrap
	// ModeReal: ModeInt, and floating-point values are mathematical reals
	// (every float operation is exact; no NaN, no infinities, no rounding).
	// This is an ASSUMPTION ("machine arithmetic treated as mathematical") and
	// is reported as such in the evidence of every function that uses it.
	ModeReal
)

func (m Mode) isInt() bool  { return m == ModeInt || m == ModeReal }
func (m Mode) isBV() bool   { return m == ModeBV }
func (m Mode) isReal() bool { return m == ModeReal }

func (m Mode) String() string {
	if m == ModeReal {
		return "real"
	}
	if m.isInt() {
		return "int"
	}
	return "bv"
}

func sx(op string, args ...string) string {
	return "(" + op + " " + strings.Join(args, " ") + ")"
}

func and(args ...string) string {
	var a []string
	for _, x := range args {
		if x == "true" {
			continue
		}
		if x == "false" {
			return "false"
		}
		a = append(a, x)
	}
	switch len(a) {
	case 0:
		return "true"
	case 1:
		return a[0]
	}
	return sx("and", a...)
}

func or(args ...string) string {
	var a []string
	for _, x := range args {
		if x == "false" {
			continue
		}
		if x == "true" {
			return "true"
		}
		a = append(a, x)
	}
	switch len(a) {
	case 0:
		return "false"
	case 1:
		return a[0]
	}
	return sx("or", a...)
}

func not(a string) string {
	if a == "true" {
		return "false"
	}
	if a == "false" {
		return "true"
	}
	return sx("not", a)
}

func implies(a, b string) string {
	if a == "true" {
		return b
	}
	if a == "false" || b == "true" {
		return "true"
	}
	return sx("=>", a, b)
}

func ite(c, a, b string) string {
	if c == "true" {
		return a
	}
	if c == "false" {
		return b
	}
	if a == b {
		return a
	}
	return sx("ite", c, a, b)
}

func eq(a, b string) string {
	if a == b {
		return "true"
	}
	return sx("=", a, b)
}

// intWidth returns (width, signed, ok) for Go integer basic types.
func intInfo(t types.Type) (int, bool, bool) {
	b, ok := t.Underlying().(*types.Basic)
	if !ok {
		return 0, false, false
	}
	switch b.Kind() {
	case types.Int, types.Int64:
		return 64, true, true
	case types.Int32:
		return 32, true, true
	case types.Int16:
		return 16, true, true
	case types.Int8:
		return 8, true, true
	case types.Uint, types.Uint64, types.Uintptr:
		return 64, false, true
	case types.Uint32:
		return 32, false, true
	case types.Uint16:
		return 16, false, true
	case types.Uint8:
		return 8, false, true
	case types.UntypedInt, types.UntypedRune:
		return 64, true, true
	}
	return 0, false, false
}

func isFloat(t types.Type) (int, bool) {
	b, ok := t.Underlying().(*types.Basic)
	if !ok {
		return 0, false
	}
	switch b.Kind() {
	case types.Float64, types.UntypedFloat:
		return 64, true
	case types.Float32:
		return 32, true
	}
	return 0, false
}

func isBool(t types.Type) bool {
	b, ok := t.Underlying().(*types.Basic)
	return ok && (b.Kind() == types.Bool || b.Kind() == types.UntypedBool)
}

func isString(t types.Type) bool {
	b, ok := t.Underlying().(*types.Basic)
	return ok && (b.Kind() == types.String || b.Kind() == types.UntypedString)
}

const sortF64 = "(_ FloatingPoint 11 53)"
const sortF32 = "(_ FloatingPoint 8 24)"

// intSort: the sort of a Go integer of the given width in the mode.
func (m Mode) intSort(w int) string {
	if m.isInt() {
		return "Int"
	}
	return fmt.Sprintf("(_ BitVec %d)", w)
}

// idxSort is the sort of Go `int` (indices, lengths).
func (m Mode) idxSort() string { return m.intSort(64) }

// scalarSort returns the SMT sort for a Go type that is represented by one
// SMT term, or "" when the type is composite (slice, struct, ...).
func (m Mode) scalarSort(t types.Type) string {
	if t == nil {
		return ""
	}
	switch u := t.Underlying().(type) {
	case *types.Basic:
		if w, _, ok := intInfo(t); ok {
			return m.intSort(w)
		}
		if w, ok := isFloat(t); ok {
			if m.isReal() {
				return "Real"
			}
			if w == 32 {
				return sortF32
			}
			return sortF64
		}
		if isBool(t) {
			return "Bool"
		}
		if isString(t) {
			return "Str"
		}
		if u.Kind() == types.UnsafePointer {
			return "Int"
		}
		if u.Kind() == types.UntypedNil {
			return "Int"
		}
	case *types.Pointer:
		return "Int" // Ref
	case *types.Interface:
		return "Iface"
	case *types.Map:
		return "Int" // map handle (Ref)
	case *types.Signature:
		return "Int"
	case *types.Chan:
		return "Int"
	}
	return ""
}

// intLit renders an integer literal of the given width.
func (m Mode) intLit(v *big.Int, w int) string {
	if m.isInt() {
		if v.Sign() < 0 {
			return "(- " + new(big.Int).Neg(v).String() + ")"
		}
		return v.String()
	}
	mod := new(big.Int).Lsh(big.NewInt(1), uint(w))
	x := new(big.Int).Mod(v, mod)
	return fmt.Sprintf("(_ bv%s %d)", x.String(), w)
}

func (m Mode) intLit64(v int64, w int) string { return m.intLit(big.NewInt(v), w) }

func f64Lit(f float64) string {
	bits := math.Float64bits(f)
	return fmt.Sprintf("(fp #b%01b #b%011b #b%052b)", bits>>63, (bits>>52)&0x7ff, bits&((1<<52)-1))
}

// realLit renders a finite float64 exactly as an SMT Real term.
func realLit(f float64) string {
	r := new(big.Rat)
	if r.SetFloat64(f) == nil {
		return "0.0"
	}
	neg := r.Sign() < 0
	if neg {
		r.Neg(r)
	}
	s := "(/ " + r.Num().String() + ".0 " + r.Denom().String() + ".0)"
	if r.IsInt() {
		s = r.Num().String() + ".0"
	}
	if neg {
		return "(- " + s + ")"
	}
	return s
}

func f32Lit(f float32) string {
	bits := math.Float32bits(f)
	return fmt.Sprintf("(fp #b%01b #b%08b #b%023b)", bits>>31, (bits>>23)&0xff, bits&((1<<23)-1))
}

func constToBig(c constant.Value) (*big.Int, bool) {
	c = constant.ToInt(c)
	if c.Kind() != constant.Int {
		return nil, false
	}
	if i, ok := constant.Int64Val(c); ok {
		return big.NewInt(i), true
	}
	if b, ok := constant.Val(c).(*big.Int); ok {
		return new(big.Int).Set(b), true
	}
	return nil, false
}

func pow2(w int) *big.Int { return new(big.Int).Lsh(big.NewInt(1), uint(w)) }

// wrapInt: wrap the mathematical integer term x into the range of a Go
// integer type (ModeInt only).
func wrapInt(x string, w int, signed bool) string {
	m := pow2(w).String()
	if !signed {
		return sx("mod", x, m)
	}
	h := pow2(w - 1).String()
	return sx("-", sx("mod", sx("+", x, h), m), h)
}

func rangeInt(x string, w int, signed bool) string {
	if signed {
		h := pow2(w - 1)
		return and(sx("<=", "(- "+h.String()+")", x), sx("<", x, h.String()))
	}
	return and(sx("<=", "0", x), sx("<", x, pow2(w).String()))
}

// sanitize makes an SMT symbol out of arbitrary text.
func sanitize(s string) string {
	var b strings.Builder
	for _, r := range s {
		switch {
		case r >= 'a' && r <= 'z', r >= 'A' && r <= 'Z', r >= '0' && r <= '9', r == '_', r == '.':
			b.WriteRune(r)
		default:
			b.WriteString("_")
		}
	}
	return b.String()
}
