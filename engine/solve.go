package main

import (
	"bytes"
	"context"
	"fmt"
	"os"
	"os/exec"
	"path/filepath"
	"strings"
	"sync"
	"time"
)

// Finish runs phase 2: translates all deferred formulas.
func (t *FnTrans) Finish() {
	t.phase2 = true
	// pass A: translate every clause once only to collect the skolem constants
	// (goal-side forall, hypothesis-side exists) as instantiation candidates;
	// skolem names are stable, so pass B below sees the complete candidate set.
	for _, o := range t.obls {
		_, _ = t.Formula(o.F, true)
	}
	for i := 0; i < len(t.assumps); i++ {
		if t.assumps[i].F.Lazy == nil {
			_, _ = t.Formula(t.assumps[i].F, false)
		}
	}
	t.abstractions = dedupe(t.abstractions)
	// goals first: their skolem constants become instantiation candidates
	for _, o := range t.obls {
		g, err := t.Formula(o.F, true)
		if err != nil {
			if strings.Contains(err.Error(), "stale identifier") {
				t.staleClauses = append(t.staleClauses, o.Name+": "+err.Error())
			} else {
				t.contractErrors = append(t.contractErrors, err.Error())
			}
			g = "true"
			o.Broken = true
		}
		o.Goal = g
	}
	t.assumpTerms = nil
	for i := 0; i < len(t.assumps); i++ { // translating a clause may add (global) assumptions
		a := t.assumps[i]
		var term string
		var err error
		if a.F.Lazy != nil {
			term = a.F.Lazy()
		} else {
			term, err = t.Formula(a.F, false)
		}
		if err != nil {
			if strings.Contains(err.Error(), "stale identifier") {
				t.staleClauses = append(t.staleClauses, "hypothesis: "+err.Error())
			} else {
				t.contractErrors = append(t.contractErrors, err.Error())
			}
			term = "true"
		}
		t.assumpTerms = append(t.assumpTerms, implies(a.Guard, term))
	}
}

const preamble = `(set-logic ALL)
(declare-sort Str 0)
(declare-sort Iface 0)
`

const tdivDefs = `(define-fun tdiv ((a Int) (b Int)) Int (ite (>= a 0) (ite (> b 0) (div a b) (- (div a (- b)))) (ite (> b 0) (- (div (- a) b)) (div (- a) (- b)))))
(define-fun trem ((a Int) (b Int)) Int (- a (* b (tdiv a b))))
`

// Query renders the SMT-LIB text of one obligation.
func (t *FnTrans) Query(o *Obl, getValues []string) string {
	var b strings.Builder
	if len(getValues) > 0 {
		b.WriteString("(set-option :produce-models true)\n")
	}
	b.WriteString(preamble)
	if t.W.needTdiv {
		b.WriteString(tdivDefs)
	}
	for _, d := range t.decls {
		b.WriteString(d)
		b.WriteByte('\n')
	}
	for _, d := range t.defs {
		b.WriteString(d)
		b.WriteByte('\n')
	}
	for i := 0; i < len(t.assumpTerms); i++ {
		if i >= o.NAssume && !t.assumps[i].Global {
			continue
		}
		if t.assumpTerms[i] == "true" {
			continue
		}
		b.WriteString("(assert ")
		b.WriteString(t.assumpTerms[i])
		b.WriteString(")\n")
	}
	if o.ExtraAssume != "" {
		b.WriteString("(assert " + o.ExtraAssume + ")\n")
	}
	b.WriteString("(assert " + o.Guard + ")\n")
	b.WriteString("(assert " + not(o.Goal) + ")\n")
	b.WriteString("(check-sat)\n")
	if len(getValues) > 0 {
		b.WriteString("(get-value (" + strings.Join(getValues, " ") + "))\n")
	}
	return b.String()
}

type Solver struct {
	Name string
	Cmd  []string // file name appended
}

var solvers = []Solver{
	{"z3-new-5.1.0", []string{"z3-new", "-smt2"}},
	{"cvc5-1.0", []string{"cvc5", "--lang=smt2", "--produce-models", "--arrays-exp"}},
	{"z3-4.8.12", []string{"z3", "-smt2"}},
}

type SolveResult struct {
	Result  string // unsat sat unknown timeout error
	Backend string
	Millis  int64
	Output  string
	All     map[string]string // backend -> result (thorough)
}

func runSolver(ctx context.Context, s Solver, file string) (string, string) {
	args := append(append([]string{}, s.Cmd[1:]...), file)
	cmd := exec.CommandContext(ctx, s.Cmd[0], args...)
	var out bytes.Buffer
	cmd.Stdout = &out
	cmd.Stderr = &out
	_ = cmd.Run()
	txt := out.String()
	first := strings.TrimSpace(strings.SplitN(txt, "\n", 2)[0])
	switch first {
	case "sat", "unsat", "unknown":
		return first, txt
	}
	if ctx.Err() != nil {
		return "timeout", txt
	}
	return "error", txt
}

// solve runs the portfolio on one query text.
func solve(dir, name, query string, timeout time.Duration, all bool) SolveResult {
	file := filepath.Join(dir, sanitize(name)+".smt2")
	if len(file) > 200 {
		file = filepath.Join(dir, fmt.Sprintf("q%x.smt2", hashString(name)))
	}
	if err := os.WriteFile(file, []byte(query), 0o644); err != nil {
		return SolveResult{Result: "error", Output: err.Error()}
	}
	start := time.Now()
	if !all {
		// stage 1: the fastest solver alone for a short time
		ctx, cancel := context.WithTimeout(context.Background(), minDur(timeout, 4*time.Second))
		r, out := runSolver(ctx, solvers[0], file)
		cancel()
		if r == "sat" || r == "unsat" {
			return SolveResult{Result: r, Backend: solvers[0].Name, Millis: time.Since(start).Milliseconds(), Output: out}
		}
	}
	ctx, cancel := context.WithTimeout(context.Background(), timeout)
	defer cancel()
	type res struct {
		s   Solver
		r   string
		out string
	}
	ch := make(chan res, len(solvers))
	var wg sync.WaitGroup
	for _, s := range solvers {
		wg.Add(1)
		go func(s Solver) {
			defer wg.Done()
			r, out := runSolver(ctx, s, file)
			ch <- res{s, r, out}
		}(s)
	}
	go func() { wg.Wait(); close(ch) }()
	final := SolveResult{Result: "unknown", All: map[string]string{}}
	var outs []string
	for r := range ch {
		final.All[r.s.Name] = r.r
		outs = append(outs, r.s.Name+": "+firstLines(r.out, 3))
		if r.r == "sat" || r.r == "unsat" {
			if final.Backend == "" {
				final.Result = r.r
				final.Backend = r.s.Name
				final.Millis = time.Since(start).Milliseconds()
				final.Output = r.out
				if !all {
					cancel()
				}
			} else if final.Result != r.r {
				final.Result = "disagree"
			}
		}
	}
	if final.Backend == "" {
		final.Millis = time.Since(start).Milliseconds()
		final.Output = strings.Join(outs, "\n")
		allTimeout := true
		for _, v := range final.All {
			if v != "timeout" {
				allTimeout = false
			}
		}
		if allTimeout {
			final.Result = "timeout"
		}
		// every back end rejected the query text: a defect of the generator
		// (ill-sorted term), never evidence about the code
		allError := len(final.All) > 0
		for _, v := range final.All {
			if v != "error" {
				allError = false
			}
		}
		if allError {
			final.Result = "error"
		}
	}
	return final
}

func firstLines(s string, n int) string {
	ls := strings.Split(strings.TrimSpace(s), "\n")
	if len(ls) > n {
		ls = ls[:n]
	}
	return strings.Join(ls, " | ")
}

func minDur(a, b time.Duration) time.Duration {
	if a < b {
		return a
	}
	return b
}

func hashString(s string) uint64 {
	var h uint64 = 1469598103934665603
	for i := 0; i < len(s); i++ {
		h ^= uint64(s[i])
		h *= 1099511628211
	}
	return h
}

func dedupe(a []string) []string {
	seen := map[string]bool{}
	var r []string
	for _, x := range a {
		if !seen[x] {
			seen[x] = true
			r = append(r, x)
		}
	}
	return r
}
