package main

import (
	"encoding/json"
	"fmt"
	"go/types"
	"os"
	"path/filepath"
	"sort"
	"strings"
	"sync"
	"time"

	"golang.org/x/tools/go/ssa"
)

type OblReport struct {
	Name       string `json:"name"`
	Kind       string `json:"kind"`
	Result     string `json:"result"`
	Backend    string `json:"backend,omitempty"`
	Millis     int64  `json:"solver_ms"`
	Text       string `json:"text,omitempty"`
	Status     string `json:"status"` // discharged | failed | known-finding | undecided | canary-ok | canary-PROVED
	Pos        string `json:"pos,omitempty"`
	Reproduced bool   `json:"reproduced,omitempty"`
	res        SolveResult
	obl        *Obl
	ft         *FnTrans
}

type FnReport struct {
	Package      string   `json:"package"`
	Function     string   `json:"function"`
	Mode         string   `json:"mode"`
	Requires     int      `json:"requires"`
	Ensures      int      `json:"ensures"`
	Invariants   int      `json:"invariants"`
	Sites        int      `json:"sites"`
	Safe         bool     `json:"safe"`
	Lemma        bool     `json:"lemma,omitempty"`
	Obligations  int      `json:"obligations"`
	Abstracted   []string `json:"abstractions,omitempty"`
	Unknown      []string `json:"unknown_calls_havocked,omitempty"`
	Assumed      []string `json:"assumed_contracts_used,omitempty"`
	Contracts    []string `json:"verified_contracts_used,omitempty"`
	Intrinsics   []string `json:"intrinsics_exact,omitempty"`
	PureCalls    []string `json:"pure_frame_calls_result_havocked,omitempty"`
	ConstGlobals []string `json:"package_vars_treated_as_constants,omitempty"`
}

func newFnTrans(w *World, fn *ssa.Function, con *Contract) *FnTrans {
	t := &FnTrans{W: w, fn: fn, con: con, declSet: map[string]bool{}, vals: map[ssa.Value]Val{},
		reach: map[*ssa.BasicBlock]string{}, exitSt: map[*ssa.BasicBlock]*HeapState{}, entrySt: map[*ssa.BasicBlock]*HeapState{},
		edgeCond: map[[2]int]string{}, idxTerms: map[string]bool{}, elemIdx: map[string]bool{}, nameCnt: map[string]int{},
		unknownCalls: map[string]int{}, assumedUsed: map[string]bool{}, contractsUsed: map[string]bool{}, params: map[string]Val{},
		siteCount: map[string]int{}, strLits: map[string]string{}, typeTags: map[string]int{}, compSorts: map[string]string{},
		constArrs: map[string]string{}, constElemSort: map[string]string{}, knownRefs: map[string]bool{}, strPairs: map[string]bool{}, strTerms: map[string]bool{}, skCache: map[string]string{}, f64bitsCache: map[string]string{}, subRefSeen: map[string]bool{}, privateRefs: map[string]bool{}, globalsUsed: map[string]bool{}, intrinsicsUsed: map[string]bool{}, pureCalls: map[string]int{}, sitesMatched: map[*SiteSpec]bool{}}
	if con != nil {
		t.mode = con.Mode
	}
	if fn.Pkg != nil {
		t.pkg = fn.Pkg.Pkg
	}
	return t
}

func keysOf(m map[string]bool) []string {
	var ks []string
	for k := range m {
		ks = append(ks, k)
	}
	sort.Strings(ks)
	return ks
}

func keysOfInt(m map[string]int) []string {
	var ks []string
	for k := range m {
		ks = append(ks, k)
	}
	sort.Strings(ks)
	return ks
}

type CheckOpts struct {
	Prop       string
	Tier       string
	Repo       string
	Verif      string
	Timeout    time.Duration
	Jobs       int
	Seed       int64
	Only       string // restrict to functions whose key contains this
	Dump       string // directory to dump queries to
	NoReplay   bool
	NoEvidence bool
}

type Evidence struct {
	PropertyID  string                 `json:"property_id"`
	Tier        string                 `json:"tier"`
	Seed        int64                  `json:"seed"`
	Level       string                 `json:"level"`
	Coverage    map[string]interface{} `json:"coverage"`
	Assumptions []string               `json:"assumptions"`
	WallS       float64                `json:"wall_s"`
	Violations  int                    `json:"violations"`
}

// propPackages: packages that hold contracts tagged with the property.
func (w *World) propContracts(prop string) []*Contract {
	var res []*Contract
	for _, cf := range w.files {
		for _, c := range cf.Contracts {
			if c.PkgPath != "" && !c.Assumed && c.hasProp(prop) {
				res = append(res, c)
			}
		}
	}
	sort.Slice(res, func(i, j int) bool {
		if res[i].PkgPath != res[j].PkgPath {
			return res[i].PkgPath < res[j].PkgPath
		}
		return res[i].Key < res[j].Key
	})
	return res
}

func runCheck(o CheckOpts) int {
	start := time.Now()
	w := &World{repo: o.Repo, verif: o.Verif, maxCands: 48}
	if err := w.LoadContracts(); err != nil {
		fmt.Fprintf(os.Stderr, "govc: contract error: %v\n", err)
		return 2
	}
	if len(w.untagged) > 0 {
		fmt.Fprintf(os.Stderr, "govc: contract error: contracts that are neither `assumed` nor tagged with a property (callers would rely on them unchecked): %s\n", strings.Join(w.untagged, ", "))
		return 2
	}
	if len(w.duplicates) > 0 {
		fmt.Fprintf(os.Stderr, "govc: contract error: more than one contract for: %s (use a view `func F @name` for a second contract)\n", strings.Join(w.duplicates, ", "))
		return 2
	}
	cons := w.propContracts(o.Prop)
	if len(cons) == 0 {
		fmt.Fprintf(os.Stderr, "govc: no contracts tagged %s\n", o.Prop)
		return 2
	}
	pkgSet := map[string]bool{}
	for _, c := range cons {
		pkgSet[c.PkgPath] = true
	}
	var pkgPaths []string
	for p := range pkgSet {
		pkgPaths = append(pkgPaths, p)
	}
	sort.Strings(pkgPaths)
	lt := time.Now()
	if err := w.Load(pkgPaths); err != nil {
		fmt.Fprintf(os.Stderr, "govc: load error: %v\n", err)
		return 2
	}
	w.loadSecs = time.Since(lt).Seconds()

	var fnReports []FnReport
	var skippedThorough []string
	var reports []*OblReport
	var internalErrs []string
	var unsupported []string
	for _, c := range cons {
		if o.Only != "" && !strings.Contains(c.Key, o.Only) {
			continue
		}
		fn := w.findFunc(c)
		if fn == nil {
			// the function under contract disappeared: report as undecided, not as a violation
			unsupported = append(unsupported, fmt.Sprintf("%s::%s: function not found in the current tree", c.PkgPath, c.Key))
			continue
		}
		if len(fn.Blocks) == 0 {
			unsupported = append(unsupported, fmt.Sprintf("%s::%s: no body", c.PkgPath, c.Key))
			continue
		}
		t := newFnTrans(w, fn, c)
		func() {
			defer func() {
				if r := recover(); r != nil {
					internalErrs = append(internalErrs, fmt.Sprintf("%s::%s: translator panic: %v", c.PkgPath, c.Key, r))
					t = nil
				}
			}()
			t.Translate()
			t.Finish()
		}()
		if t == nil {
			continue
		}
		for _, e := range t.contractErrors {
			internalErrs = append(internalErrs, e)
		}
		for _, e := range dedupe(t.staleClauses) {
			unsupported = append(unsupported, fmt.Sprintf("%s::%s: stale contract clause, NOT decided (the code no longer has a variable it names): %s", c.PkgPath, c.Key, e))
		}
		// unmatched loop / site specs are contract errors (stale contract)
		for ord := range c.Loops {
			found := false
			for _, li := range t.loops {
				if li.ordinal == ord {
					found = true
				}
			}
			if !found {
				unsupported = append(unsupported, fmt.Sprintf("%s::%s: loop %d named in the contract does not exist", c.PkgPath, c.Key, ord))
			}
		}
		for _, s := range c.Sites {
			if !t.sitesMatched[s] {
				unsupported = append(unsupported, fmt.Sprintf("%s::%s: site %s %s #%d named in the contract was not found", c.PkgPath, c.Key, s.Kind, s.Text, s.Ordinal))
			}
		}
		fr := FnReport{Package: c.PkgPath, Function: c.Key, Mode: t.mode.String(), Requires: len(c.Requires), Ensures: len(c.Ensures), Safe: c.Safe, Lemma: c.Lemma,
			Sites: len(c.Sites), Abstracted: t.abstractions, Unknown: keysOfInt(t.unknownCalls), Assumed: keysOf(t.assumedUsed), Contracts: keysOf(t.contractsUsed),
			Intrinsics: keysOf(t.intrinsicsUsed), PureCalls: keysOfInt(t.pureCalls), ConstGlobals: keysOf(t.globalsUsed)}
		for _, l := range c.Loops {
			fr.Invariants += len(l.Invariants)
		}
		if len(t.staleClauses) > 0 {
			// a contract that names variables the function no longer has says
			// nothing reliable about this version of the function: none of its
			// obligations is decided (reported, never as a violation)
			unsupported = append(unsupported, fmt.Sprintf("%s::%s: NOT decided in this run: the contract is stale with respect to the code (see the clauses above)", c.PkgPath, c.Key))
			for _, ob := range t.obls {
				ob.Broken = true
			}
		}
		for _, ob := range t.obls {
			if ob.Broken {
				continue
			}
			if ob.F.Clause != nil && ob.F.Clause.ThoroughOnly && ob.Kind == "ensures" && o.Tier != "thorough" {
				skippedThorough = append(skippedThorough, ob.Name)
				continue
			}
			r := &OblReport{Name: ob.Name, Kind: ob.Kind, Text: ob.Text, obl: ob, ft: t}
			if ob.Pos.IsValid() {
				p := w.fset.Position(ob.Pos)
				r.Pos = fmt.Sprintf("%s:%d", strings.TrimPrefix(p.Filename, o.Repo+"/"), p.Line)
			}
			reports = append(reports, r)
			if !ob.Canary {
				fr.Obligations++
			}
		}
		fnReports = append(fnReports, fr)
	}
	if len(internalErrs) > 0 {
		for _, e := range internalErrs {
			fmt.Fprintf(os.Stderr, "govc: internal/contract error: %s\n", e)
		}
		return 2
	}

	// solve
	dir, err := os.MkdirTemp("", "govc-q-")
	if err != nil {
		fmt.Fprintln(os.Stderr, err)
		return 2
	}
	defer os.RemoveAll(dir)
	if o.Dump != "" {
		os.MkdirAll(o.Dump, 0o755)
	}
	jobs := make(chan *OblReport)
	var wg sync.WaitGroup
	for i := 0; i < o.Jobs; i++ {
		wg.Add(1)
		go func() {
			defer wg.Done()
			for r := range jobs {
				q := r.ft.Query(r.obl, nil)
				if o.Dump != "" {
					os.WriteFile(filepath.Join(o.Dump, sanitize(r.Name)+".smt2"), []byte(q), 0o644)
				}
				to := o.Timeout
				if r.obl.Canary {
					to = minDur(to, 5*time.Second)
				}
				r.res = solve(dir, r.Name, q, to, o.Tier == "thorough" && !r.obl.Canary)
				r.Result, r.Backend, r.Millis = r.res.Result, r.res.Backend, r.res.Millis
			}
		}()
	}
	for _, r := range reports {
		jobs <- r
	}
	close(jobs)
	wg.Wait()

	return finishCheck(o, w, reports, fnReports, unsupported, skippedThorough, start)
}

func finishCheck(o CheckOpts, w *World, reports []*OblReport, fnReports []FnReport, unsupported []string, skippedThorough []string, start time.Time) int {
	kf := loadKnownFindings(o.Verif)
	obligations, discharged := 0, 0
	var violations []string
	var undecided []string
	var canaryBad []string
	softProved := map[*FnTrans][]string{}
	var knownSeen []string
	var solverMs int64
	backends := map[string]int{}
	for _, r := range reports {
		solverMs += r.Millis
		if r.obl.Canary {
			switch r.Result {
			case "sat":
				r.Status = "canary-ok"
			case "unsat":
				r.Status = "canary-PROVED"
				if strings.Contains(r.Name, "/canary:entry#") {
					canaryBad = append(canaryBad, r.Name)
				} else {
					softProved[r.ft] = append(softProved[r.ft], r.Name)
				}
			default:
				r.Status = "canary-undecided"
			}
			continue
		}
		obligations++
		switch r.Result {
		case "unsat":
			r.Status = "discharged"
			discharged++
			backends[r.Backend]++
		default:
			r.Status = "failed"
		}
	}
	// a function none of whose return points is reachable is vacuous
	for ft, names := range softProved {
		reachable := 0
		for _, r := range reports {
			if r.ft == ft && r.obl.Canary && r.Status == "canary-ok" && strings.Contains(r.Name, "/canary:ret") {
				reachable++
			}
		}
		if reachable == 0 && ft.retCount > 0 {
			canaryBad = append(canaryBad, names...)
		} else {
			unsupported = append(unsupported, fmt.Sprintf("%s: program points unreachable under the preconditions: %s", fnKey(ft.fn), strings.Join(names, ", ")))
		}
	}
	for _, r := range reports {
		if r.Result == "error" {
			fmt.Fprintf(os.Stderr, "govc: internal error: every solver rejected the query of %s (ill-formed VC, a contract or generator defect): %s\n", r.Name, firstLines(r.res.Output, 3))
			return 2
		}
	}
	for _, r := range reports {
		if r.Result == "disagree" {
			fmt.Fprintf(os.Stderr, "govc: SOLVER DISAGREEMENT on %s: %v\n", r.Name, r.res.All)
			return 2
		}
	}
	if len(canaryBad) > 0 {
		for _, c := range canaryBad {
			fmt.Fprintf(os.Stderr, "govc: VACUITY: canary %s was proved (contradictory contract or lost path)\n", c)
		}
		return 2
	}
	exit := 0
	// failed obligations: known finding, replayed violation or violation without input
	for _, r := range reports {
		if r.Status != "failed" {
			continue
		}
		if f := kf.match(o.Prop, r.Name); f != nil {
			// the finding is listed: outside the recorded input class the obligation must still hold
			if f.Class != "" {
				if ok, why := r.ft.holdsOutsideClass(r.obl, f.Class, o); !ok {
					path := writeReplay(o, w, r)
					fmt.Printf("VIOLATION property=%s replay=%s obligation=%s result=%s outside-known-class (%s) no-failing-input-found\n", o.Prop, path, r.Name, r.Result, why)
					violations = append(violations, r.Name)
					exit = 1
					continue
				}
			}
			r.Status = "known-finding"
			knownSeen = append(knownSeen, r.Name)
			fmt.Printf("KNOWN-FINDING: property=%s %s: %s\n", o.Prop, r.Name, f.What)
			continue
		}
		path := writeReplay(o, w, r)
		suffix := ""
		if !r.Reproduced {
			suffix = " no-failing-input-found"
		}
		fmt.Printf("VIOLATION property=%s replay=%s obligation=%s result=%s%s\n", o.Prop, path, r.Name, r.Result, suffix)
		violations = append(violations, r.Name)
		exit = 1
	}
	_ = undecided
	// bounded stand-ins: exhaustive tests of the real function up to a stated
	// bound (reported separately; never counted among the proved obligations)
	var boundedReports []map[string]interface{}
	for _, c := range w.propContracts(o.Prop) {
		if c.Bounded == nil || (o.Only != "" && !strings.Contains(c.Key, o.Only)) {
			continue
		}
		src, err := os.ReadFile(filepath.Join(o.Verif, "bounded", c.Bounded.File))
		if err != nil {
			fmt.Fprintf(os.Stderr, "govc: bounded harness missing: %v\n", err)
			return 2
		}
		rel := strings.TrimPrefix(c.PkgPath, modulePath+"/")
		bstart := time.Now()
		out, failed := runGoTestW(w, o.Repo, rel, c.Bounded.Test, string(src))
		ran := strings.Contains(out, "--- PASS: "+c.Bounded.Test) || strings.Contains(out, "--- FAIL: "+c.Bounded.Test)
		br := map[string]interface{}{"function": c.PkgPath + "::" + c.Key, "bound": c.Bounded.Bound, "harness": c.Bounded.File, "test": c.Bounded.Test, "seconds": time.Since(bstart).Seconds(), "level": "bounded (not a proof)"}
		switch {
		case !failed && ran:
			br["result"] = "passed"
		case failed && ran:
			br["result"] = "FAILED"
			dir := filepath.Join(o.Verif, "replays", o.Prop)
			os.MkdirAll(dir, 0o755)
			path := filepath.Join(dir, fmt.Sprintf("bounded-%x.json", hashString(c.Key)))
			rf := ReplayFile{Property: o.Prop, Obligation: "bounded:" + c.Key, Result: "test-failed", Backend: "go test", Clause: c.Bounded.Bound, GoTest: string(src), GoTestPkg: rel, GoTestName: c.Bounded.Test, ReplayOutput: firstLines(out, 60), Reproduced: true, Note: "bounded stand-in: the failing input is printed by the harness and was run against the real function"}
			data, _ := json.MarshalIndent(rf, "", " ")
			os.WriteFile(path, data, 0o644)
			fmt.Printf("VIOLATION property=%s replay=%s obligation=bounded:%s result=test-failed\n", o.Prop, path, c.Key)
			violations = append(violations, "bounded:"+c.Key)
			exit = 1
		default:
			fmt.Fprintf(os.Stderr, "govc: bounded harness %s did not run (build error?):\n%s\n", c.Bounded.File, firstLines(out, 20))
			return 2
		}
		boundedReports = append(boundedReports, br)
	}
	// evidence
	var samples []interface{}
	for i, r := range reports {
		if r.obl.Canary {
			continue
		}
		if len(samples) < 6 || r.Status != "discharged" {
			samples = append(samples, map[string]interface{}{"obligation": r.Name, "kind": r.Kind, "clause": r.Text, "result": r.Result, "backend": r.Backend, "solver_ms": r.Millis, "status": r.Status})
		}
		_ = i
	}
	trusted := []string{
		"go/ssa (x/tools v0.29.0) construction of the SSA form from the type-checked source; Go compiler",
		"SMT solvers z3 5.1.0, cvc5 1.0, z3 4.8.12 (first definitive answer in quick tier; all three must agree in thorough tier)",
		"govc translation of SSA to SMT (integers exact: bit-vectors or mathematical ints with explicit wrap; floats IEEE-754 RNE)",
		"termination is not proved; concurrency is ignored (functions verified as if run alone)",
	}
	assumedSet := map[string]bool{}
	unknownSet := map[string]bool{}
	for _, f := range fnReports {
		if f.Mode == "real" {
			assumedSet["machine arithmetic treated as mathematical in "+f.Function+": float64 values are exact reals there (no rounding, NaN or infinities); integers are mathematical with explicit wrap"] = true
		}
		for _, a := range f.Assumed {
			assumedSet["assumed contract: "+a] = true
		}
		for _, u := range f.Unknown {
			unknownSet["unknown call havocked in "+f.Function+": "+u] = true
		}
	}
	trusted = append(trusted, keysOf(assumedSet)...)
	trusted = append(trusted, keysOf(unknownSet)...)
	assumeScan := 0
	for _, cf := range w.files {
		assumeScan += cf.Assumes
	}
	var oblList []map[string]interface{}
	for _, r := range reports {
		oblList = append(oblList, map[string]interface{}{"name": r.Name, "kind": r.Kind, "result": r.Result, "backend": r.Backend, "solver_ms": r.Millis, "status": r.Status, "pos": r.Pos})
	}
	// proof-level evidence: obligations that are listed known findings are
	// reported separately (they are not claimed as proved)
	obligations -= len(knownSeen)
	cov := map[string]interface{}{
		"obligations":                           obligations,
		"known_finding_obligations_not_counted": len(knownSeen),
		"discharged":                            discharged,
		"checker_cmd":                           "z3-new -smt2 <q> | cvc5 --lang=smt2 --arrays-exp <q> | z3 -smt2 <q>  (portfolio; queries generated by /verif/bin/govc from /repo's SSA)",
		"trusted_base":                          trusted,
		"functions_under_contract":              fnReports,
		"obligation_list":                       oblList,
		"samples":                               samples,
		"backends":                              backends,
		"solver_ms_total":                       solverMs,
		"load_s":                                w.loadSecs,
		"known_findings_seen":                   knownSeen,
		"failed":                                violations,
		"unsupported_or_stale":                  unsupported,
		"thorough_only_obligations_skipped_in_this_tier": skippedThorough,
		"contracts_source_mirror":                        w.mirrorUsed,
		"assume_clauses_in_contract_files":               assumeScan,
		"vacuity_canaries":                               countCanaries(reports),
		"bounded_standins_not_counted_as_proved":         boundedReports,
		"explanation":                                    "every obligation is a verification condition generated from the SSA of the real function under the contract in zz_verif_contracts.go; discharged means unsat",
	}
	ev := Evidence{PropertyID: o.Prop, Tier: o.Tier, Seed: o.Seed, Level: "proof", Coverage: cov, WallS: time.Since(start).Seconds(), Violations: len(violations),
		Assumptions: propAssumptions(o.Prop, w, fnReports)}
	if !o.NoEvidence {
		os.MkdirAll(filepath.Join(o.Verif, "evidence"), 0o755)
		data, _ := json.MarshalIndent(ev, "", " ")
		os.WriteFile(filepath.Join(o.Verif, "evidence", o.Prop+".json"), data, 0o644)
	}
	fmt.Printf("govc: property %s: %d obligations, %d discharged, %d known findings, %d violations, %d canaries refuted, %.1fs\n",
		o.Prop, obligations, discharged, len(knownSeen), len(violations), countCanaries(reports)["refuted"], time.Since(start).Seconds())
	for _, u := range unsupported {
		fmt.Printf("govc: note (STALE-OR-UNSUPPORTED): %s\n", u)
	}
	if os.Getenv("GOVC_SLOW") != "" {
		for _, r := range reports {
			if r.Millis > 2000 {
				fmt.Printf("govc: slow: %6dms %-8s %s %s\n", r.Millis, r.Result, r.Backend, r.Name)
			}
		}
	}
	return exit
}

func countCanaries(reports []*OblReport) map[string]int {
	m := map[string]int{"refuted": 0, "undecided": 0}
	for _, r := range reports {
		if r.obl.Canary {
			if r.Status == "canary-ok" {
				m["refuted"]++
			} else {
				m["undecided"]++
			}
		}
	}
	return m
}

func propAssumptions(prop string, w *World, frs []FnReport) []string {
	a := []string{
		"only the functions listed under functions_under_contract are verified; the rest of the property (see DESIGN.md section 4, 'Not covered') is not decided by this check",
		"callers establish the stated preconditions (call-site preconditions outside verified callers are unchecked)",
	}
	seen := map[string]bool{}
	for _, f := range frs {
		for _, x := range f.Abstracted {
			s := f.Function + ": " + x
			if !seen[s] {
				seen[s] = true
				a = append(a, s)
			}
		}
	}
	return a
}

var _ = types.Typ

// holdsOutsideClass re-proves a failed obligation under the negation of the
// recorded failing-input class of a known finding.
func (t *FnTrans) holdsOutsideClass(ob *Obl, class string, o CheckOpts) (bool, string) {
	c, err := parseExprClause("class", class, "known_findings.json", 0)
	if err != nil {
		return false, err.Error()
	}
	env := t.entryEnv(t.entry0)
	term, err := t.Formula(Formula{Clause: c, Env: env}, true)
	if err != nil {
		return false, err.Error()
	}
	saved := ob.ExtraAssume
	ob.ExtraAssume = and(saved, not(term))
	if saved == "" {
		ob.ExtraAssume = not(term)
	}
	defer func() { ob.ExtraAssume = saved }()
	dir, err := os.MkdirTemp("", "govc-kf-")
	if err != nil {
		return false, err.Error()
	}
	defer os.RemoveAll(dir)
	res := solve(dir, ob.Name+".outside", t.Query(ob, nil), o.Timeout, false)
	if res.Result == "unsat" {
		return true, ""
	}
	return false, "result " + res.Result + " under !(" + class + ")"
}
