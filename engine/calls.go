package main

import (
	"fmt"
	"go/ast"
	"go/constant"
	"go/parser"
	"go/token"
	"go/types"
	"os"
	"sort"
	"strings"

	"golang.org/x/tools/go/ssa"
)

func calleeName(fn *ssa.Function) string {
	// e.g. "math.Abs", "(encoding/binary.littleEndian).Uint16", "(*sync.Mutex).Lock"
	return fn.String()
}

var pureFramePkgs = map[string]bool{
	"github.com/sirupsen/logrus": true, "fmt": true, "errors": true, "strconv": true, "strings": true,
	"math": true, "math/bits": true, "unicode": true, "unicode/utf8": true, "time": true, "path/filepath": true, "path": true,
	"regexp": true, "log": true, "runtime": true, "runtime/debug": true, "math/rand": true,
	"github.com/google/uuid": true, "github.com/cespare/xxhash": true, "github.com/cespare/xxhash/v2": true,
	"hash/crc32": true,
}

var pureFrameFuncs = map[string]bool{
	"os.Remove": true, "os.RemoveAll": true, "os.Stat": true, "os.MkdirAll": true, "os.Mkdir": true, "os.Rename": true,
	"os.OpenFile": true, "os.Open": true, "os.Create": true, "os.ReadFile": true, "os.WriteFile": true, "os.ReadDir": true, "os.IsNotExist": true, "os.IsExist": true,
	"(*os.File).Close": true, "(*os.File).Write": true, "(*os.File).WriteString": true, "(*os.File).Sync": true, "(*os.File).Seek": true, "(*os.File).Stat": true, "(*os.File).Name": true, "(*os.File).Truncate": true, "(*os.File).Fd": true, "syscall.Flock": true,
	"(*sync.Mutex).Lock": true, "(*sync.Mutex).Unlock": true, "(*sync.RWMutex).Lock": true, "(*sync.RWMutex).Unlock": true,
	"(*sync.RWMutex).RLock": true, "(*sync.RWMutex).RUnlock": true, "(*sync.Mutex).TryLock": true,
	"(*sync.WaitGroup).Add": true, "(*sync.WaitGroup).Done": true, "(*sync.WaitGroup).Wait": true,
	"bytes.NewReader": true, "bytes.NewBuffer": true, "(*bytes.Reader).Len": true,
	"bytes.Equal": true, "bytes.Compare": true, "bytes.Index": true, "bytes.IndexByte": true, "bytes.Contains": true, "bytes.HasPrefix": true, "bytes.HasSuffix": true, "bytes.EqualFold": true,
	"sort.SearchInts": true, "sort.Search": true,
	"io/ioutil.ReadFile": true, "io/ioutil.WriteFile": true, "io/ioutil.ReadDir": true,
	"encoding/json.Marshal": true, "encoding/json.MarshalIndent": true,
	"(*sync/atomic.Int64).Load": true, "(*sync/atomic.Uint64).Load": true, "(*sync/atomic.Bool).Load": true, "(*sync/atomic.Int32).Load": true,
}

var nonNilResult = map[string]bool{"errors.New": true, "fmt.Errorf": true}

func (w *World) isPureFrame(fn *ssa.Function) bool {
	name := calleeName(fn)
	if pureFrameFuncs[name] {
		return true
	}
	if fn.Pkg != nil && pureFramePkgs[fn.Pkg.Pkg.Path()] {
		// methods with pointer receivers on library types may mutate the receiver
		// object, which is never a verified heap component; results are havocked.
		return true
	}
	// methods of types declared in pure packages (e.g. time.Time.Unix) have Pkg set; generic instances may not
	if fn.Pkg == nil && fn.Origin() != nil && fn.Origin().Pkg != nil && pureFramePkgs[fn.Origin().Pkg.Pkg.Path()] {
		return true
	}
	return false
}

func (w *World) intrinsicPure(fn *ssa.Function) bool {
	_, ok := intrinsics[calleeName(fn)]
	return ok
}

type intrinsicFn func(t *FnTrans, x *ssa.Call, args []Val, st *HeapState, reach string) (Val, bool)

var intrinsics map[string]intrinsicFn

func init() {
	f64 := types.Typ[types.Float64]
	bt := types.Typ[types.Bool]
	intrinsics = map[string]intrinsicFn{
		"math.Float64bits": func(t *FnTrans, x *ssa.Call, a []Val, st *HeapState, reach string) (Val, bool) {
			v := t.materialize(a[0], f64)
			if v.K != VScalar || !t.mode.isBV() {
				return Val{}, false
			}
			return t.float64bits(v), true
		},
		"math.Float64frombits": func(t *FnTrans, x *ssa.Call, a []Val, st *HeapState, reach string) (Val, bool) {
			v := t.materialize(a[0], types.Typ[types.Uint64])
			if v.K != VScalar || !t.mode.isBV() {
				return Val{}, false
			}
			return t.float64frombits(v), true
		},
		"math.Abs": func(t *FnTrans, x *ssa.Call, a []Val, st *HeapState, reach string) (Val, bool) {
			v := t.materialize(a[0], f64)
			if v.K != VScalar {
				return Val{}, false
			}
			if t.mode.isReal() {
				return scalar(f64, ite(sx(">=", v.S, "0.0"), v.S, sx("-", v.S))), true
			}
			return scalar(f64, sx("fp.abs", v.S)), true
		},
		"math.IsNaN": func(t *FnTrans, x *ssa.Call, a []Val, st *HeapState, reach string) (Val, bool) {
			v := t.materialize(a[0], f64)
			if v.K != VScalar {
				return Val{}, false
			}
			if t.mode.isReal() {
				return scalar(bt, "false"), true
			}
			return scalar(bt, sx("fp.isNaN", v.S)), true
		},
		"math.IsInf": func(t *FnTrans, x *ssa.Call, a []Val, st *HeapState, reach string) (Val, bool) {
			v := t.materialize(a[0], f64)
			s := t.materialize(a[1], types.Typ[types.Int])
			if v.K != VScalar || s.K != VScalar {
				return Val{}, false
			}
			if t.mode.isReal() {
				return scalar(bt, "false"), true
			}
			z := t.mode.intLit64(0, 64)
			pos := and(sx("fp.isInfinite", v.S), sx("fp.isPositive", v.S))
			neg := and(sx("fp.isInfinite", v.S), sx("fp.isNegative", v.S))
			return scalar(bt, or(and(t.cmpIdx(">=", s.S, z), pos), and(t.cmpIdx("<=", s.S, z), neg))), true
		},
		"math.Inf": func(t *FnTrans, x *ssa.Call, a []Val, st *HeapState, reach string) (Val, bool) {
			s := t.materialize(a[0], types.Typ[types.Int])
			if s.K != VScalar || t.mode.isReal() {
				return Val{}, false
			}
			return scalar(f64, ite(t.cmpIdx(">=", s.S, t.mode.intLit64(0, 64)), "(_ +oo 11 53)", "(_ -oo 11 53)")), true
		},
		"math.NaN": func(t *FnTrans, x *ssa.Call, a []Val, st *HeapState, reach string) (Val, bool) {
			if t.mode.isReal() {
				return Val{}, false
			}
			return scalar(f64, "(_ NaN 11 53)"), true
		},
		"math.Min":   minMaxIntrinsic(true),
		"math.Max":   minMaxIntrinsic(false),
		"math.Floor": roundIntrinsic("RTN"),
		"math.Ceil":  roundIntrinsic("RTP"),
		"math.Trunc": roundIntrinsic("RTZ"),
		"math.Sqrt": func(t *FnTrans, x *ssa.Call, a []Val, st *HeapState, reach string) (Val, bool) {
			v := t.materialize(a[0], f64)
			if v.K != VScalar || t.mode.isReal() {
				return Val{}, false
			}
			return scalar(f64, sx("fp.sqrt", "RNE", v.S)), true
		},
	}
	// binary.Read(r, order, &x): writes only through the pointer boxed in `data`
	intrinsics["encoding/binary.Read"] = func(t *FnTrans, x *ssa.Call, a []Val, st *HeapState, reach string) (Val, bool) {
		c := x.Common()
		if len(c.Args) != 3 {
			return Val{}, false
		}
		mi, ok := c.Args[2].(*ssa.MakeInterface)
		if !ok {
			return Val{}, false
		}
		pt, ok := mi.X.Type().Underlying().(*types.Pointer)
		if !ok || t.mode.scalarSort(pt.Elem()) == "" {
			return Val{}, false
		}
		p := t.val(mi.X)
		l, ok := t.locOf(p, mi.X.Type())
		if !ok {
			return Val{}, false
		}
		t.store(st, l, t.havocVal(pt.Elem(), "binread"))
		return t.havocVal(x.Type(), "ret.binaryRead"), true
	}
	for _, e := range []string{"littleEndian", "bigEndian"} {
		for _, w := range []int{16, 32, 64} {
			e, w := e, w
			intrinsics[fmt.Sprintf("(encoding/binary.%s).Uint%d", e, w)] = func(t *FnTrans, x *ssa.Call, a []Val, st *HeapState, reach string) (Val, bool) {
				return t.endianRead(x, a[1], w, e == "littleEndian", st, reach)
			}
			intrinsics[fmt.Sprintf("(encoding/binary.%s).PutUint%d", e, w)] = func(t *FnTrans, x *ssa.Call, a []Val, st *HeapState, reach string) (Val, bool) {
				return t.endianWrite(x, a[1], a[2], w, e == "littleEndian", st, reach)
			}
		}
	}
}

// sync/atomic loads and stores of integers: the sequential meaning (*addr,
// *addr = val).  Concurrency is outside this engine for every function; an
// atomic access is the same memory access as a plain one for a single thread.
func init() {
	for _, k := range []string{"Int32", "Int64", "Uint32", "Uint64"} {
		k := k
		intrinsics["sync/atomic.Load"+k] = func(t *FnTrans, x *ssa.Call, a []Val, st *HeapState, reach string) (Val, bool) {
			addr := x.Common().Args[0]
			l, ok := t.locOf(a[0], addr.Type())
			if !ok {
				return Val{}, false
			}
			if a[0].K == VScalar && !interiorOrLocal(addr) {
				t.nilCheck(x.Pos(), reach, a[0].S)
			}
			return t.load(st, l, reach), true
		}
		intrinsics["sync/atomic.Store"+k] = func(t *FnTrans, x *ssa.Call, a []Val, st *HeapState, reach string) (Val, bool) {
			addr := x.Common().Args[0]
			l, ok := t.locOf(a[0], addr.Type())
			if !ok {
				return Val{}, false
			}
			if !rootIsLocal(addr) {
				t.frameCheck("store:"+t.srcText(x.Pos()), x.Pos(), reach)
				if t.allowedMods != nil {
					for _, c := range t.addrComps(addr) {
						if !t.allowedMods[c] {
							t.addObl("frame", "store-outside-modifies:"+c, reach, Formula{Raw: "false"}, x.Pos(), "store to a heap component that is not in the modifies list")
						}
					}
				}
			}
			if a[0].K == VScalar && !interiorOrLocal(addr) {
				t.nilCheck(x.Pos(), reach, a[0].S)
			}
			pt := addr.Type().Underlying().(*types.Pointer)
			t.store(st, l, t.materialize(a[1], pt.Elem()))
			return Val{K: VNone}, true
		}
	}
}

// math.Min / math.Max with Go's special cases: NaN if either operand is NaN,
// Min(-0, +0) = -0, Max(+0, -0) = +0.  (mode real: no NaN, no signed zero.)
func minMaxIntrinsic(isMin bool) intrinsicFn {
	return func(t *FnTrans, x *ssa.Call, a []Val, st *HeapState, reach string) (Val, bool) {
		f64 := types.Typ[types.Float64]
		u, v := t.materialize(a[0], f64), t.materialize(a[1], f64)
		if u.K != VScalar || v.K != VScalar {
			return Val{}, false
		}
		if t.mode.isReal() {
			if isMin {
				return scalar(f64, ite(sx("<=", u.S, v.S), u.S, v.S)), true
			}
			return scalar(f64, ite(sx(">=", u.S, v.S), u.S, v.S)), true
		}
		if !t.mode.isBV() {
			return Val{}, false
		}
		nan := or(sx("fp.isNaN", u.S), sx("fp.isNaN", v.S))
		var pick string
		if isMin {
			pick = ite(sx("fp.lt", u.S, v.S), u.S, ite(sx("fp.lt", v.S, u.S), v.S, ite(and(sx("fp.isZero", u.S), sx("fp.isNegative", u.S)), u.S, v.S)))
		} else {
			pick = ite(sx("fp.gt", u.S, v.S), u.S, ite(sx("fp.gt", v.S, u.S), v.S, ite(and(sx("fp.isZero", u.S), sx("fp.isPositive", u.S)), u.S, v.S)))
		}
		return scalar(f64, ite(nan, "(_ NaN 11 53)", pick)), true
	}
}

func roundIntrinsic(rm string) intrinsicFn {
	return func(t *FnTrans, x *ssa.Call, a []Val, st *HeapState, reach string) (Val, bool) {
		v := t.materialize(a[0], types.Typ[types.Float64])
		if v.K != VScalar {
			return Val{}, false
		}
		if t.mode.isReal() {
			fl := func(x string) string { return sx("to_real", sx("to_int", x)) }
			switch rm {
			case "RTN":
				return scalar(types.Typ[types.Float64], fl(v.S)), true
			case "RTP":
				return scalar(types.Typ[types.Float64], sx("-", fl(sx("-", v.S)))), true
			default:
				return scalar(types.Typ[types.Float64], ite(sx(">=", v.S, "0.0"), fl(v.S), sx("-", fl(sx("-", v.S))))), true
			}
		}
		return scalar(types.Typ[types.Float64], sx("fp.roundToIntegral", rm, v.S)), true
	}
}

func (t *FnTrans) float64bits(v Val) Val {
	// one bit pattern per float term (the same term denotes the same run-time value)
	if b, ok := t.f64bitsCache[v.S]; ok {
		return scalar(types.Typ[types.Uint64], b)
	}
	b := t.declare(t.fresh("f64bits"), "(_ BitVec 64)")
	t.f64bitsCache[v.S] = b
	t.assume("true", eq(sx("(_ to_fp 11 53)", b), v.S), "math.Float64bits: to_fp(bits) == f (NaN payload unconstrained)")
	return scalar(types.Typ[types.Uint64], b)
}

func (t *FnTrans) float64frombits(v Val) Val {
	return scalar(types.Typ[types.Float64], sx("(_ to_fp 11 53)", v.S))
}

func (t *FnTrans) byteAt(st *HeapState, s Val, k int) string {
	l := t.elemLoc(types.Typ[types.Uint8], s.Sub[0].S, t.addIdx(s.Sub[1].S, t.mode.intLit64(int64(k), 64)))
	return t.selectComp(st, l, compDesc{"", t.mode.intSort(8)})
}

func (t *FnTrans) endianRead(x *ssa.Call, s Val, w int, little bool, st *HeapState, reach string) (Val, bool) {
	if s.K != VSlice || !t.mode.isBV() {
		return Val{}, false
	}
	n := w / 8
	t.safety("bounds", x.Pos(), reach, t.cmpIdx(">=", s.Sub[2].S, t.mode.intLit64(int64(n), 64)))
	var bytes []string
	for k := 0; k < n; k++ {
		bytes = append(bytes, t.byteAt(st, s, k))
	}
	// concat: most significant first
	var parts []string
	if little {
		for k := n - 1; k >= 0; k-- {
			parts = append(parts, bytes[k])
		}
	} else {
		parts = bytes
	}
	var ty types.Type
	switch w {
	case 16:
		ty = types.Typ[types.Uint16]
	case 32:
		ty = types.Typ[types.Uint32]
	default:
		ty = types.Typ[types.Uint64]
	}
	return scalar(ty, sx("concat", parts...)), true
}

func (t *FnTrans) endianWrite(x *ssa.Call, s Val, v Val, w int, little bool, st *HeapState, reach string) (Val, bool) {
	if s.K != VSlice || !t.mode.isBV() {
		return Val{}, false
	}
	var ty types.Type
	switch w {
	case 16:
		ty = types.Typ[types.Uint16]
	case 32:
		ty = types.Typ[types.Uint32]
	default:
		ty = types.Typ[types.Uint64]
	}
	v = t.materialize(v, ty)
	if v.K != VScalar {
		return Val{}, false
	}
	n := w / 8
	t.safety("bounds", x.Pos(), reach, t.cmpIdx(">=", s.Sub[2].S, t.mode.intLit64(int64(n), 64)))
	for k := 0; k < n; k++ {
		bit := k * 8
		if !little {
			bit = (n - 1 - k) * 8
		}
		byteTerm := sx(fmt.Sprintf("(_ extract %d %d)", bit+7, bit), v.S)
		ix := t.addIdx(s.Sub[1].S, t.mode.intLit64(int64(k), 64))
		t.elemIdx[ix] = true
		l := t.elemLoc(types.Typ[types.Uint8], s.Sub[0].S, ix)
		t.storeComp(st, l, compDesc{"", t.mode.intSort(8)}, byteTerm)
	}
	return Val{K: VNone}, true
}

// ----------------------------------------------------------------- call ---

func (t *FnTrans) call(x *ssa.Call, c *ssa.CallCommon, st *HeapState, reach string, b *ssa.BasicBlock, idx int) {
	var args []Val
	for _, a := range c.Args {
		args = append(args, t.val(a))
	}
	if bi, ok := c.Value.(*ssa.Builtin); ok {
		t.builtin(x, bi, c, args, st, reach)
		return
	}
	if c.IsInvoke() {
		name := c.Method.Name()
		if name == "Error" || name == "String" {
			t.setVal(x, t.havocVal(x.Type(), "str"))
			return
		}
		// assumed contract for an interface method, keyed by its full name
		if con := t.W.contracts[c.Method.FullName()]; con != nil {
			t.invokeContractCall(x, c, con, args, st, reach)
			return
		}
		t.unknownCall(x, "interface method "+c.Method.FullName(), st)
		return
	}
	callee := c.StaticCallee()
	if callee == nil {
		// a call through a function-typed local that holds one of several
		// function constants (non-capturing closures, package functions):
		// case split on the function value, each case against that
		// function's contract, states and results merged afterwards
		if fv := t.val(c.Value); fv.K == VFunc && len(fv.Alts) > 0 {
			var ins []mergeInput
			var conds []string
			var rets []Val
			for _, a := range fv.Alts {
				sti := st.clone()
				delete(t.vals, x)
				t.callResolved(x, c, a.Fn, args, sti, and(reach, a.Cond), b, idx)
				rets = append(rets, t.vals[x])
				conds = append(conds, a.Cond)
				ins = append(ins, mergeInput{a.Cond, sti})
			}
			t.replaceState(st, &HeapState{cur: map[string]string{}, merge: ins, pending: map[string]int{}, pendingPrefix: map[string]int{}})
			if _, isTuple := x.Type().(*types.Tuple); x.Type() != nil && (!isTuple || x.Type().(*types.Tuple).Len() > 0) {
				allSet := true
				for _, r := range rets {
					if r.K == VNone && r.T == nil {
						allSet = false
					}
				}
				if allSet {
					t.setVal(x, t.mergeVals(x.Type(), conds, rets))
				} else {
					t.setVal(x, t.havocVal(x.Type(), "dyn"))
				}
			}
			t.dynSplits++
			return
		}
		t.unknownCall(x, "dynamic call", st)
		return
	}
	t.callResolved(x, c, callee, args, st, reach, b, idx)
}

// callResolved: a call whose callee is known (statically, or in one case of a
// split over the values of a function-typed local).
func (t *FnTrans) callResolved(x *ssa.Call, c *ssa.CallCommon, callee *ssa.Function, args []Val, st *HeapState, reach string, b *ssa.BasicBlock, idx int) {
	name := calleeName(callee)
	if f, ok := intrinsics[name]; ok {
		if r, ok := f(t, x, args, st, reach); ok {
			t.intrinsicsUsed[name] = true
			if r.K != VNone {
				t.setVal(x, r)
			}
			return
		}
	}
	if con := t.W.contractForView(callee, t.view()); con != nil {
		t.contractCall(x, callee, con, args, st, reach, b, idx)
		return
	}
	if t.W.isPureFrame(callee) {
		t.pureCalls[name]++
		r := t.havocVal(x.Type(), "ret."+callee.Name())
		if name == "fmt.Sprintf" && r.K == VScalar {
			t.sprintfConfinement(x, c, args, r, st, reach)
			t.sprintfDashFields(x, c, args, r, st, reach)
			t.sprintfAnchoredRegex(x, c, args, r, st, reach)
		}
		if nonNilResult[name] && r.K == VScalar {
			t.declare("iface.nil", "Iface")
			t.assume("true", not(eq(r.S, "iface.nil")), name+" returns a non-nil error")
		}
		t.setVal(x, r)
		return
	}
	t.unknownCall(x, name, st)
}

func (t *FnTrans) unknownCall(x *ssa.Call, name string, st *HeapState) {
	t.unknownCalls[name]++
	t.frameCheck("unknown-call:"+name, x.Pos(), t.reach[x.Block()])
	if t.allowedMods != nil {
		t.addObl("frame", "unknown-call-in-function-with-modifies:"+name, t.reach[x.Block()], Formula{Raw: "false"}, x.Pos(), "call without a contract inside a function whose frame is declared")
	}
	t.replaceState(st, t.havocAllKeepGhost(st))
	t.setVal(x, t.havocVal(x.Type(), "unk"))
}

func (t *FnTrans) builtin(x *ssa.Call, bi *ssa.Builtin, c *ssa.CallCommon, args []Val, st *HeapState, reach string) {
	intT := types.Typ[types.Int]
	switch bi.Name() {
	case "len", "cap":
		v := args[0]
		switch v.K {
		case VSlice:
			if bi.Name() == "len" {
				t.setVal(x, scalar(intT, v.Sub[2].S))
			} else {
				t.setVal(x, scalar(intT, v.Sub[3].S))
			}
			return
		case VScalar:
			if isString(c.Args[0].Type()) {
				t.setVal(x, scalar(intT, sx(t.strLen(), v.S)))
				return
			}
			if _, ok := c.Args[0].Type().Underlying().(*types.Map); ok {
				mt := c.Args[0].Type().Underlying().(*types.Map)
				r := scalar(intT, t.mapLenTerm(st, mt, v.S))
				t.assume(reach, and(t.cmpIdx(">=", r.S, t.mode.intLit64(0, 64)), t.cmpIdx("<=", r.S, t.mode.intLit(pow2(48), 64))), "0 <= len(map) <= 2^48")
				t.setVal(x, r)
				return
			}
		}
		r := t.havocVal(intT, "len")
		t.assume(reach, t.cmpIdx(">=", r.S, t.mode.intLit64(0, 64)), "len >= 0")
		t.setVal(x, r)
	case "append":
		t.appendBuiltin(x, c, args, st, reach)
	case "copy":
		t.copyBuiltin(x, c, args, st, reach)
	case "min", "max":
		r := t.materialize(args[0], x.Type())
		for _, a := range args[1:] {
			a = t.materialize(a, x.Type())
			if r.K != VScalar || a.K != VScalar {
				t.setVal(x, t.havocVal(x.Type(), "minmax"))
				return
			}
			var lt Val
			if bi.Name() == "min" {
				lt = t.binop(token.LSS, a, r)
			} else {
				lt = t.binop(token.LSS, r, a)
			}
			if _, isF := isFloat(x.Type()); isF {
				// NaN propagation differs; abstract floats
				t.setVal(x, t.havocVal(x.Type(), "minmax"))
				return
			}
			r = scalar(x.Type(), ite(lt.S, a.S, r.S))
		}
		t.setVal(x, r)
	case "delete":
		mt, ok := c.Args[0].Type().Underlying().(*types.Map)
		if ok {
			m := args[0]
			k := t.materialize(args[1], mt.Key())
			if comp, srt, dks, ok := t.mapComps(mt); ok && m.K == VScalar && k.K == VScalar {
				t.noteKeyTerm(dks, k.S)
				arr := t.heapGet(st, comp, srt)
				t.heapSet(st, comp, srt, sx("store", arr, m.S, sx("store", sx("select", arr, m.S), k.S, "false")))
			}
		}
	case "recover":
		t.setVal(x, t.zeroVal(x.Type()))
	case "print", "println":
	default:
		t.note("builtin %s not modelled", bi.Name())
		t.setVal(x, t.havocVal(x.Type(), "builtin"))
	}
}

// allocRef: a fresh object reference: not nil, distinct from every reference
// the function has seen so far (parameters, values loaded from memory, call
// results, earlier allocations).
func (t *FnTrans) allocRef(hint string) string {
	if !t.declSet["ALLOC0"] {
		t.declare("ALLOC0", "Int")
		t.assume("true", sx(">", "ALLOC0", "0"), "allocation frontier is above nil")
	}
	name := t.declare(t.fresh(hint), "Int")
	facts := []string{sx(">", name, "ALLOC0")}
	// moving allocation frontier (ghost component G.ALLOCF): every object this
	// function allocates lies above everything allocated before it, so an
	// invariant `allocated(x)` (x is at or below the frontier) separates the
	// objects of earlier loop iterations from the one allocated now
	if t.curSt != nil && !t.phase2 {
		fsrt := arraySort("Int", "Int")
		fr := t.heapGet(t.curSt, "G.ALLOCF", fsrt)
		facts = append(facts, sx(">", name, sx("select", fr, "0")), sx(">=", sx("select", fr, "0"), "ALLOC0"))
		t.heapSet(t.curSt, "G.ALLOCF", fsrt, sx("store", fr, "0", name))
	}
	for _, o := range t.localRefs {
		facts = append(facts, not(eq(name, o)))
	}
	var ks []string
	for r := range t.knownRefs {
		ks = append(ks, r)
	}
	sortStrings(ks)
	for _, r := range ks {
		facts = append(facts, not(eq(name, r)))
	}
	for _, r := range t.subRefTerms {
		facts = append(facts, not(eq(name, r)))
	}
	t.assume("true", and(facts...), "fresh allocation is distinct from nil and from every reference seen before it")
	t.localRefs = append(t.localRefs, name)
	return name
}

// noteRef records reference-typed values (they exist before any later allocation).
func (t *FnTrans) noteRef(v Val) {
	switch v.K {
	case VScalar:
		if v.T == nil {
			return
		}
		switch v.T.Underlying().(type) {
		case *types.Pointer, *types.Map, *types.Chan:
			if v.S != "0" && !strings.Contains(v.S, " ") {
				t.knownRefs[v.S] = true
			}
		}
	case VSlice:
		if s := v.Sub[0].S; s != "0" && !strings.Contains(s, " ") {
			t.knownRefs[s] = true
		}
	case VStruct, VTuple:
		for _, s := range v.Sub {
			t.noteRef(s)
		}
	}
}

// append(s, more...): in place when capacity suffices, otherwise a fresh
// backing array that starts with the old contents.
func (t *FnTrans) appendBuiltin(x *ssa.Call, c *ssa.CallCommon, args []Val, st *HeapState, reach string) {
	s, more := args[0], args[1]
	sl, _ := x.Type().Underlying().(*types.Slice)
	if s.K != VSlice || sl == nil {
		t.setVal(x, t.havocVal(x.Type(), "append"))
		return
	}
	es := t.mode.scalarSort(sl.Elem())
	var moreLen string
	switch more.K {
	case VSlice:
		moreLen = more.Sub[2].S
	case VScalar: // append([]byte, string...)
		moreLen = sx(t.strLen(), more.S)
	default:
		t.setVal(x, t.havocVal(x.Type(), "append"))
		return
	}
	newLen := t.addIdx(s.Sub[2].S, moreLen)
	fits := t.cmpIdx("<=", newLen, s.Sub[3].S)
	fresh := t.allocRef("append")
	fcap := t.declare(t.fresh("appendcap"), t.mode.idxSort())
	t.assume(reach, and(t.cmpIdx(">=", fcap, newLen), t.cmpIdx("<=", fcap, t.mode.intLit(pow2(48), 64))), "capacity after growth")
	t.assume(reach, t.cmpIdx("<=", newLen, t.mode.intLit(pow2(48), 64)), "slice length below 2^48")
	z := t.mode.intLit64(0, 64)
	res := Val{K: VSlice, T: x.Type(), Sub: []Val{
		scalar(nil, ite(fits, s.Sub[0].S, fresh)),
		scalar(nil, ite(fits, s.Sub[1].S, z)),
		scalar(nil, newLen),
		scalar(nil, ite(fits, s.Sub[3].S, fcap)),
	}}
	cds := t.flatComps(sl.Elem())
	if (es == "" && len(cds) == 0) || more.K != VSlice {
		// contents not tracked for composite elements
		if es != "" {
			comp := "B." + t.sortKey(sl.Elem())
			srt := arraySort("Int", arraySort(t.mode.idxSort(), es))
			arr := t.heapGet(st, comp, srt)
			na := t.declare(t.fresh("appendarr"), arraySort(t.mode.idxSort(), es))
			t.heapSet(st, comp, srt, sx("store", arr, res.Sub[0].S, na))
			t.note("append of a string or unmodelled tail: contents of the result abstracted")
		} else if isStructOrArray(sl.Elem()) {
			t.note("append to a slice of structs: element contents abstracted")
		} else {
			t.note("append to a slice of %s: element contents abstracted", sl.Elem())
		}
		t.setVal(x, res)
		return
	}
	// one heap component per flattened part of an element (a scalar element has
	// one, a slice element four: base, offset, length, capacity)
	k, isConst := constLen(t, more)
	base := res.Sub[0].S
	off := res.Sub[1].S
	oldOff := s.Sub[1].S
	oldLen := s.Sub[2].S
	for _, cd := range cds {
		cd := cd
		comp := "B." + t.sortKey(sl.Elem()) + cd.suffix
		inner := arraySort(t.mode.idxSort(), cd.sort)
		srt := arraySort("Int", inner)
		arr := t.heapGet(st, comp, srt)
		// fresh array content: copy of the old prefix (quantified hypothesis, instantiated in phase 2)
		freshArr := t.declare(t.fresh("appendarr"), inner)
		oldInner := sx("select", arr, s.Sub[0].S)
		t.assumps = append(t.assumps, Assump{Guard: reach, Why: "append: fresh backing array starts with the old contents", F: Formula{Lazy: func() string {
			var parts []string
			for _, c := range t.candidates(z, oldLen) {
				parts = append(parts, implies(and(t.cmpIdx("<=", z, c), t.cmpIdx("<", c, oldLen)), eq(sx("select", freshArr, c), sx("select", oldInner, t.addIdx(oldOff, c)))))
			}
			return and(parts...)
		}}})
		curInner := ite(fits, oldInner, freshArr)
		if isConst && k <= 16 {
			moreInner := sx("select", arr, more.Sub[0].S)
			for j := 0; j < k; j++ {
				jv := t.mode.intLit64(int64(j), 64)
				src := sx("select", moreInner, t.addIdx(more.Sub[1].S, jv))
				dst := t.addIdx(off, t.addIdx(oldLen, jv))
				t.elemIdx[dst] = true
				curInner = sx("store", curInner, dst, src)
			}
			t.heapSet(st, comp, srt, sx("store", arr, base, curInner))
		} else {
			// variable tail: new inner array agrees with the old one below oldLen and with `more` above
			na := t.declare(t.fresh("appendarr"), inner)
			moreInner := sx("select", arr, more.Sub[0].S)
			moreOff := more.Sub[1].S
			t.assumps = append(t.assumps, Assump{Guard: reach, Why: "append: result contents", F: Formula{Lazy: func() string {
				var parts []string
				for _, c := range t.candidates(z, newLen) {
					inOld := and(t.cmpIdx("<=", z, c), t.cmpIdx("<", c, oldLen))
					inNew := and(t.cmpIdx("<=", oldLen, c), t.cmpIdx("<", c, newLen))
					at := sx("select", na, t.addIdx(off, c))
					parts = append(parts, implies(inOld, eq(at, sx("select", curInner, t.addIdx(off, c)))))
					parts = append(parts, implies(inNew, eq(at, sx("select", moreInner, t.addIdx(moreOff, t.subIdx(c, oldLen))))))
				}
				return and(parts...)
			}}})
			t.heapSet(st, comp, srt, sx("store", arr, base, na))
			t.note("append with a variable-length tail: elements outside [0,newLen) of the backing array abstracted")
		}
	}
	t.setVal(x, res)
}

func constLen(t *FnTrans, v Val) (int, bool) {
	if v.K != VSlice {
		return 0, false
	}
	if n, ok := t.smtConstInt(v.Sub[2].S); ok {
		return n, true
	}
	return 0, false
}

func (t *FnTrans) smtConstInt(s string) (int, bool) {
	if t.mode.isInt() {
		if n, ok := smtIntLit(s); ok && n.IsInt64() {
			return int(n.Int64()), true
		}
		return 0, false
	}
	var v, w int
	if _, err := fmt.Sscanf(s, "(_ bv%d %d)", &v, &w); err == nil {
		return v, true
	}
	return 0, false
}

func (t *FnTrans) copyBuiltin(x *ssa.Call, c *ssa.CallCommon, args []Val, st *HeapState, reach string) {
	dst, src := args[0], args[1]
	intT := types.Typ[types.Int]
	sl, _ := c.Args[0].Type().Underlying().(*types.Slice)
	if dst.K != VSlice || sl == nil {
		t.setVal(x, t.havocVal(intT, "copy"))
		return
	}
	var srcLen string
	switch src.K {
	case VSlice:
		srcLen = src.Sub[2].S
	case VScalar:
		srcLen = sx(t.strLen(), src.S)
	default:
		t.setVal(x, t.havocVal(intT, "copy"))
		return
	}
	n := ite(t.cmpIdx("<", dst.Sub[2].S, srcLen), dst.Sub[2].S, srcLen)
	n = t.define("copyn", t.mode.idxSort(), n)
	t.setVal(x, scalar(intT, n))
	es := t.mode.scalarSort(sl.Elem())
	if es == "" {
		t.note("copy of composite elements: contents abstracted")
		return
	}
	comp := "B." + t.sortKey(sl.Elem())
	inner := arraySort(t.mode.idxSort(), es)
	srt := arraySort("Int", inner)
	arr := t.heapGet(st, comp, srt)
	oldInner := sx("select", arr, dst.Sub[0].S)
	na := t.declare(t.fresh("copyarr"), inner)
	z := t.mode.intLit64(0, 64)
	dOff := dst.Sub[1].S
	var srcAt func(c string) string
	if src.K == VSlice {
		srcInner := sx("select", arr, src.Sub[0].S)
		sOff := src.Sub[1].S
		srcAt = func(c string) string { return sx("select", srcInner, t.addIdx(sOff, c)) }
	} else {
		f := t.declareFun("gstr.at", []string{"Str", t.mode.idxSort()}, t.mode.intSort(8))
		srcAt = func(c string) string { return sx(f, src.S, c) }
	}
	t.assumps = append(t.assumps, Assump{Guard: reach, Why: "copy: destination contents", F: Formula{Lazy: func() string {
		var parts []string
		// logical indices inside the copied window
		for _, c := range t.candidates(z, n) {
			in := and(t.cmpIdx("<=", z, c), t.cmpIdx("<", c, n))
			parts = append(parts, implies(in, eq(sx("select", na, t.addIdx(dOff, c)), srcAt(c))))
		}
		// frame: absolute element indices outside the window keep their value
		for _, c := range t.elemCandidates() {
			out := or(t.cmpIdx("<", c, dOff), t.cmpIdx(">=", c, t.addIdx(dOff, n)))
			parts = append(parts, implies(out, eq(sx("select", na, c), sx("select", oldInner, c))))
		}
		return and(parts...)
	}}})
	t.heapSet(st, comp, srt, sx("store", arr, dst.Sub[0].S, na))
}

func (t *FnTrans) elemCandidates() []string {
	var ks []string
	for k := range t.elemIdx {
		ks = append(ks, k)
	}
	sortStrings(ks)
	if len(ks) > t.W.maxCands {
		ks = ks[:t.W.maxCands]
	}
	return ks
}

// ------------------------------------------------------ contract calls ----

func (t *FnTrans) calleeEnv(callee *ssa.Function, con *Contract, args []Val, st *HeapState) *Env {
	vars := map[string]Val{}
	sig := callee.Signature
	k := 0
	if r := sig.Recv(); r != nil {
		if k < len(args) {
			vars[r.Name()] = t.materialize(args[k], r.Type())
		}
		k++
	}
	for i := 0; i < sig.Params().Len(); i++ {
		p := sig.Params().At(i)
		if k < len(args) {
			vars[p.Name()] = t.materialize(args[k], p.Type())
		}
		k++
	}
	var pkg *types.Package
	if callee.Pkg != nil {
		pkg = callee.Pkg.Pkg
	}
	e := &Env{t: t, st: st, vars: vars, pkg: pkg, callee: true}
	e.old = e
	return e
}

func (t *FnTrans) contractCall(x *ssa.Call, callee *ssa.Function, con *Contract, args []Val, st *HeapState, reach string, b *ssa.BasicBlock, idx int) {
	name := t.W.contractName(callee)
	if con.Assumed {
		t.assumedUsed[name] = true
	} else {
		t.contractsUsed[name] = true
	}
	pre := t.calleeEnv(callee, con, args, st.clone())
	for k, c := range con.Requires {
		lbl := c.Label
		if lbl == "" {
			lbl = fmt.Sprint(k + 1)
		}
		if t.con != nil && t.con.AssumeCalleeRequires {
			t.assumps = append(t.assumps, Assump{Guard: reach, F: Formula{Clause: c, Env: pre}, Why: "precondition of " + name + " ASSUMED at this call (assumecalleerequires)"})
			t.note("preconditions of %s are assumed, not proved, at its call sites in this function (assumecalleerequires)", name)
			continue
		}
		t.addObl("requires@call", fnKey(callee)+":"+lbl, reach, Formula{Clause: c, Env: pre}, x.Pos(), c.Text)
	}
	// frame
	if !con.Pure {
		if !t.writesOnlyLocalArgs(x, callee, con) {
			t.frameCheck("call:"+name, x.Pos(), reach)
		}
		if t.allowedMods != nil {
			if comps, ok := t.modifiesComps(callee, con); ok && len(con.Modifies) > 0 {
				for _, c := range comps {
					if !t.allowedMods[c] {
						t.addObl("frame", "callee-modifies-outside:"+c, reach, Formula{Raw: "false"}, x.Pos(), "callee may write a component that is not in this function's modifies list")
					}
				}
			} else {
				t.addObl("frame", "callee-without-frame:"+name, reach, Formula{Raw: "false"}, x.Pos(), "callee has no resolvable frame")
			}
		}
		if len(con.Preserves) > 0 && con.Assumed && len(con.Modifies) == 0 {
			// frame by exclusion: everything but the listed components may change
			keep, ok := t.modifiesComps(callee, &Contract{Modifies: con.Preserves})
			// touch the preserved components in the pre-state so that they exist
			for _, it := range con.Preserves {
				if strings.HasPrefix(it, "fieldsof(") && strings.HasSuffix(it, ")") {
					// contract clauses are evaluated lazily: a field component that
					// only they mention does not exist yet; create it in the pre-state
					var pkg *types.Package
					if callee.Pkg != nil {
						pkg = callee.Pkg.Pkg
					}
					if sty := t.W.structTypeByName(pkg, strings.TrimSpace(it[len("fieldsof("):len(it)-1])); sty != nil {
						su := sty.Underlying().(*types.Struct)
						for i := 0; i < su.NumFields(); i++ {
							for _, cd := range t.flatComps(su.Field(i).Type()) {
								t.heapGet(st, "F."+typeKey(sty)+"."+su.Field(i).Name()+cd.suffix, arraySort("Int", cd.sort))
							}
						}
					}
					continue
				}
				func() {
					defer func() { _ = recover() }()
					inner := it
					isContents := strings.HasPrefix(it, "contents(") && strings.HasSuffix(it, ")")
					if isContents {
						inner = it[len("contents(") : len(it)-1]
					}
					ex, err := parser.ParseExpr(inner)
					if err != nil {
						return
					}
					v := pre.eval(ex)
					if isContents && v.K == VSlice {
						el := v.T.Underlying().(*types.Slice).Elem()
						l := t.elemLoc(el, v.Sub[0].S, v.Sub[1].S)
						for _, cd := range t.flatComps(el) {
							t.selectComp(pre.st, l, cd)
						}
					}
				}()
			}
			for c, srt := range t.compSorts {
				_ = c
				_ = srt
			}
			ns := t.havocAllKeepGhost(st)
			if ok {
				for _, c := range keep {
					if srt, known := t.compSorts[c]; known {
						ns.cur[c] = t.heapGet(st, c, srt)
					}
				}
			} else {
				t.note("call to %s: preserves list not resolvable: nothing preserved", name)
			}
			t.replaceState(st, ns)
		} else if len(con.Modifies) == 0 {
			// no frame: every real location may change; ghost instrumentation
			// changes only where the callee (or a contracted callee of it) sets it
			ns := t.havocAllKeepGhost(st)
			for _, g := range t.W.ghostWrites(callee, map[*ssa.Function]bool{}) {
				comp := "G." + g
				if srt, ok := t.compSorts[comp]; ok {
					ns.cur[comp] = t.declare(t.fresh("H."+comp+"!call"), srt)
				}
				comp = "GA." + g
				if srt, ok := t.compSorts[comp]; ok {
					ns.cur[comp] = t.declare(t.fresh("H."+comp+"!call"), srt)
				}
			}
			t.replaceState(st, ns)
			t.note("call to %s: contract has no frame (pure/modifies): whole heap havocked", name)
		} else {
			for _, m := range con.Modifies {
				t.havocModifies(m, pre, st, reach)
			}
		}
	}
	res := t.havocVal(x.Type(), "ret."+callee.Name())
	t.setVal(x, res)
	post := &Env{t: t, st: st.clone(), vars: map[string]Val{}, pkg: pre.pkg, old: pre, guard: reach, callee: true}
	for k, v := range pre.vars {
		post.vars[k] = v
	}
	sig := callee.Signature
	bind := func(i int, v Val) {
		post.vars[fmt.Sprintf("result%d", i)] = v
		if i == 0 {
			post.vars["result"] = v
		}
		if n := sig.Results().At(i).Name(); n != "" && n != "_" {
			if _, clash := post.vars[n]; !clash {
				post.vars[n] = v
			}
		}
	}
	if sig.Results().Len() == 1 {
		bind(0, res)
	} else if res.K == VTuple {
		for i, v := range res.Sub {
			bind(i, v)
		}
	}
	if con.NonNil && res.K == VScalar {
		z := t.zeroVal(res.T)
		if z.K == VScalar {
			t.assume(reach, not(eq(res.S, z.S)), name+" returns non-nil")
		}
	}
	for _, c := range con.Ensures {
		t.assumps = append(t.assumps, Assump{Guard: reach, F: Formula{Clause: c, Env: post}, Why: "ensures of " + name})
	}
}

// structTypeByName resolves "T" (in pkg) or "alias.T" (imported by pkg) to a
// named struct type.
func (w *World) structTypeByName(pkg *types.Package, name string) types.Type {
	if pkg == nil {
		return nil
	}
	scope := pkg.Scope()
	if i := strings.Index(name, "."); i >= 0 {
		p := w.importedPkg(pkg, name[:i])
		if p == nil {
			return nil
		}
		scope, name = p.Scope(), name[i+1:]
	}
	tn, ok := scope.Lookup(name).(*types.TypeName)
	if !ok {
		return nil
	}
	if _, ok := tn.Type().Underlying().(*types.Struct); !ok {
		return nil
	}
	return tn.Type()
}

// typeByText resolves a type written in a modifies item: a predeclared or
// named type (optionally package-qualified), with any prefix of * and [].
func (w *World) typeByText(pkg *types.Package, text string) types.Type {
	text = strings.TrimSpace(text)
	if strings.HasPrefix(text, "*") {
		if el := w.typeByText(pkg, text[1:]); el != nil {
			return types.NewPointer(el)
		}
		return nil
	}
	if strings.HasPrefix(text, "[]") {
		if el := w.typeByText(pkg, text[2:]); el != nil {
			return types.NewSlice(el)
		}
		return nil
	}
	if tn, ok := types.Universe.Lookup(text).(*types.TypeName); ok {
		return tn.Type()
	}
	if pkg == nil {
		return nil
	}
	scope, name := pkg.Scope(), text
	if i := strings.Index(name, "."); i >= 0 {
		p := w.importedPkg(pkg, name[:i])
		if p == nil {
			return nil
		}
		scope, name = p.Scope(), name[i+1:]
	}
	if tn, ok := scope.Lookup(name).(*types.TypeName); ok {
		return tn.Type()
	}
	return nil
}

// ghostWrites: names of the ghost components a contracted function may set:
// its own ghostinit / site ghostsets / modifies ghost items and, transitively,
// those of the contracted functions it calls statically.
func (w *World) ghostWrites(fn *ssa.Function, seen map[*ssa.Function]bool) []string {
	if fn == nil || seen[fn] {
		return nil
	}
	seen[fn] = true
	set := map[string]bool{}
	if con := w.contractFor(fn); con != nil {
		for _, c := range con.GhostInit {
			for _, m := range ghostNameRe.FindAllStringSubmatch(c.Text, -1) {
				set[m[1]] = true
			}
		}
		for _, s := range con.Sites {
			for _, g := range s.Ghosts {
				for _, m := range ghostNameRe.FindAllStringSubmatch(g.Target, -1) {
					set[m[1]] = true
				}
			}
		}
		for _, it := range con.Modifies {
			if strings.HasPrefix(strings.TrimSpace(it), "ghost") {
				for _, m := range ghostNameRe.FindAllStringSubmatch(it, -1) {
					set[m[1]] = true
				}
				if strings.HasPrefix(strings.TrimSpace(it), "ghostseq(") {
					set[strings.Trim(strings.TrimSuffix(strings.TrimPrefix(strings.TrimSpace(it), "ghostseq("), ")"), "\" ")] = true
				}
			}
		}
	}
	for _, b := range fn.Blocks {
		for _, in := range b.Instrs {
			if c, ok := in.(ssa.CallInstruction); ok {
				// follow every statically known callee (contracted or not): an
				// uncontracted helper may call a contracted function that sets ghosts
				if cal := c.Common().StaticCallee(); cal != nil && len(seen) < 4000 {
					for _, g := range w.ghostWrites(cal, seen) {
						set[g] = true
					}
				}
				if mc, ok := c.Common().Value.(*ssa.MakeClosure); ok {
					if f, ok := mc.Fn.(*ssa.Function); ok {
						for _, g := range w.ghostWrites(f, seen) {
							set[g] = true
						}
					}
				}
			}
		}
	}
	var r []string
	for g := range set {
		r = append(r, g)
	}
	sortStrings(r)
	return r
}

// havocModifies havocs the part of the heap named by one `modifies` item.
func (t *FnTrans) havocModifies(item string, pre *Env, st *HeapState, reach string) {
	if item == "all" {
		t.replaceState(st, t.havocAll(st))
		return
	}
	if strings.HasPrefix(item, "ghostseq(") {
		// every element of a ghost sequence may change
		gname := strings.Trim(strings.TrimSuffix(strings.TrimPrefix(item, "ghostseq("), ")"), "\" ")
		gt := t.W.ghostType(gname)
		srt := arraySort("Int", arraySort(t.mode.idxSort(), t.mode.scalarSort(gt)))
		comp := "GA." + gname
		t.heapGet(st, comp, srt)
		delete(st.cur, comp)
		t.epochs++
		st.pending[comp] = t.epochs
		return
	}
	if strings.HasPrefix(item, "fieldsof(") && strings.HasSuffix(item, ")") {
		// every field of every object of the named struct type may change
		st2 := t.W.structTypeByName(pre.pkg, strings.TrimSpace(item[len("fieldsof("):len(item)-1]))
		if st2 == nil {
			t.note("modifies item %q: unknown struct type: whole heap havocked", item)
			t.replaceState(st, t.havocAll(st))
			return
		}
		prefix := "F." + typeKey(st2) + "."
		for k := range st.cur {
			if strings.HasPrefix(k, prefix) {
				delete(st.cur, k)
			}
		}
		t.epochs++
		st.pendingPrefix[prefix] = t.epochs
		return
	}
	if strings.HasPrefix(item, "elemsof(") && strings.HasSuffix(item, ")") {
		// every element of every slice/array with this element type may change
		el := t.W.typeByText(pre.pkg, strings.TrimSpace(item[len("elemsof("):len(item)-1]))
		cds := []compDesc(nil)
		if el != nil {
			cds = t.flatComps(el)
		}
		if cds == nil {
			t.note("modifies item %q: unknown or unsupported element type: whole heap havocked", item)
			t.replaceState(st, t.havocAll(st))
			return
		}
		for _, cd := range cds {
			comp := "B." + t.sortKey(el) + cd.suffix
			srt := arraySort("Int", arraySort(t.mode.idxSort(), cd.sort))
			t.heapGet(st, comp, srt)
			delete(st.cur, comp)
			t.epochs++
			st.pending[comp] = t.epochs
		}
		return
	}
	if item == "allbytes" {
		// every byte-slice content may change (used by assumed buffer layers)
		comp := "B." + t.sortKey(types.Typ[types.Uint8])
		srt := arraySort("Int", arraySort(t.mode.idxSort(), t.mode.intSort(8)))
		t.heapGet(st, comp, srt)
		delete(st.cur, comp)
		t.epochs++
		st.pending[comp] = t.epochs
		return
	}
	ex, err := parser.ParseExpr(item)
	if err != nil {
		t.note("modifies item %q does not parse: whole heap havocked", item)
		t.replaceState(st, t.havocAll(st))
		return
	}
	defer func() {
		if r := recover(); r != nil {
			if _, ok := r.(*exprError); ok {
				t.note("modifies item %q not resolvable (%v): whole heap havocked", item, r.(*exprError).msg)
				t.replaceState(st, t.havocAll(st))
				return
			}
			panic(r)
		}
	}()
	switch n := ex.(type) {
	case *ast.CallExpr:
		id, _ := n.Fun.(*ast.Ident)
		if id != nil && id.Name == "contents" && len(n.Args) == 1 {
			s := pre.eval(n.Args[0])
			if s.K == VScalar {
				// pointer to array
				if pt, ok := s.T.Underlying().(*types.Pointer); ok {
					if at, ok := pt.Elem().Underlying().(*types.Array); ok {
						nn := t.mode.intLit64(at.Len(), 64)
						s = Val{K: VSlice, T: types.NewSlice(at.Elem()), Sub: []Val{scalar(nil, s.S), scalar(nil, t.mode.intLit64(0, 64)), scalar(nil, nn), scalar(nil, nn)}}
					}
				}
			}
			if s.K != VSlice {
				panic(&exprError{"contents() of a non-slice"})
			}
			el := s.T.Underlying().(*types.Slice).Elem()
			es := t.mode.scalarSort(el)
			if es == "" {
				// composite elements (e.g. [][]byte): every element of this
				// base may change, component by component
				cds := t.flatComps(el)
				if cds == nil {
					panic(&exprError{"contents() of unsupported composite elements"})
				}
				for _, cd := range cds {
					comp := "B." + t.sortKey(el) + cd.suffix
					inner := arraySort(t.mode.idxSort(), cd.sort)
					srt := arraySort("Int", inner)
					arr := t.heapGet(st, comp, srt)
					t.heapSet(st, comp, srt, sx("store", arr, s.Sub[0].S, t.declare(t.fresh("modarr"), inner)))
				}
				return
			}
			comp := "B." + t.sortKey(el)
			inner := arraySort(t.mode.idxSort(), es)
			srt := arraySort("Int", inner)
			arr := t.heapGet(st, comp, srt)
			oldInner := sx("select", arr, s.Sub[0].S)
			na := t.declare(t.fresh("modarr"), inner)
			off, ln := s.Sub[1].S, s.Sub[2].S
			t.assumps = append(t.assumps, Assump{Guard: reach, Why: "frame: elements outside the modified slice window are unchanged", F: Formula{Lazy: func() string {
				var parts []string
				for _, c := range t.elemCandidates() {
					out := or(t.cmpIdx("<", c, off), t.cmpIdx(">=", c, t.addIdx(off, ln)))
					parts = append(parts, implies(out, eq(sx("select", na, c), sx("select", oldInner, c))))
				}
				return and(parts...)
			}}})
			t.heapSet(st, comp, srt, sx("store", arr, s.Sub[0].S, na))
			return
		}
		if id != nil && id.Name == "mapof" && len(n.Args) == 1 {
			// every entry of one map may change
			m := pre.eval(n.Args[0])
			mt, ok := m.T.Underlying().(*types.Map)
			if !ok || m.K != VScalar {
				panic(&exprError{"mapof() needs a map"})
			}
			comp, srt, ks, ok := t.mapComps(mt)
			if !ok {
				panic(&exprError{"mapof(): unsupported key type"})
			}
			arr := t.heapGet(st, comp, srt)
			t.heapSet(st, comp, srt, sx("store", arr, m.S, t.declare(t.fresh("mapof"), arraySort(ks, "Bool"))))
			base := "M." + typeKey(mt) + ".val"
			for _, cd := range t.mapValComps(mt) {
				vs := arraySort("Int", arraySort(ks, cd.sort))
				va := t.heapGet(st, base+cd.suffix, vs)
				t.heapSet(st, base+cd.suffix, vs, sx("store", va, m.S, t.declare(t.fresh("mapofv"), arraySort(ks, cd.sort))))
			}
			return
		}
		if id != nil && id.Name == "ghostat" && len(n.Args) == 3 {
			o := pre.eval(n.Args[0])
			if o.K == VConst {
				o = scalar(nil, "0")
			}
			if o.K == VScalar && o.T != nil {
				if _, _, isInt := intInfo(o.T); isInt && t.mode.isBV() {
					o = scalar(nil, sx("bv2nat", o.S))
				}
			}
			ix, ok := t.toIdx(pre.eval(n.Args[1]))
			lit, _ := n.Args[2].(*ast.BasicLit)
			if lit == nil || o.K != VScalar || !ok {
				panic(&exprError{"bad ghostat() item"})
			}
			gname := strings.Trim(lit.Value, "\"")
			gt := t.W.ghostType(gname)
			es := t.mode.scalarSort(gt)
			srt := arraySort("Int", arraySort(t.mode.idxSort(), es))
			arr := t.heapGet(st, "GA."+gname, srt)
			fv := t.declare(t.fresh("ghostat."+gname), es)
			t.heapSet(st, "GA."+gname, srt, sx("store", arr, o.S, sx("store", sx("select", arr, o.S), ix, fv)))
			return
		}
		if id != nil && id.Name == "ghost" && len(n.Args) == 2 {
			o := pre.eval(n.Args[0])
			if o.K == VConst {
				o = scalar(nil, "0")
			}
			lit, _ := n.Args[1].(*ast.BasicLit)
			if lit == nil || o.K != VScalar {
				panic(&exprError{"bad ghost() item"})
			}
			gname := strings.Trim(lit.Value, "\"")
			gt := t.W.ghostType(gname)
			srt := arraySort("Int", t.mode.scalarSort(gt))
			arr := t.heapGet(st, "G."+gname, srt)
			t.heapSet(st, "G."+gname, srt, sx("store", arr, o.S, t.declare(t.fresh("ghost."+gname), t.mode.scalarSort(gt))))
			return
		}
	case *ast.SelectorExpr:
		base := pre.eval(n.X)
		if base.K != VScalar {
			panic(&exprError{"modifies base is not a reference"})
		}
		pt, ok := base.T.Underlying().(*types.Pointer)
		if !ok {
			panic(&exprError{"modifies base is not a pointer"})
		}
		obj, path, _ := types.LookupFieldOrMethod(base.T, true, pre.pkgOf(base.T), n.Sel.Name)
		if _, ok := obj.(*types.Var); !ok || len(path) == 0 {
			panic(&exprError{"no such field"})
		}
		ref := base.S
		sty := pt.Elem()
		for i, fi := range path {
			l := t.fieldLoc(sty, fi, ref)
			if i == len(path)-1 {
				t.store(st, l, t.havocVal(l.T, "mod."+n.Sel.Name))
				return
			}
			ref = t.subRef(l)
			sty = l.T
		}
	case *ast.StarExpr:
		p := pre.eval(n.X)
		pt, ok := p.T.Underlying().(*types.Pointer)
		if !ok || p.K != VScalar {
			panic(&exprError{"modifies *p: p is not a pointer"})
		}
		t.store(st, t.cellLoc(pt.Elem(), p.S), t.havocVal(pt.Elem(), "mod.deref"))
		return
	}
	panic(&exprError{"unsupported modifies item"})
}

// writesOnlyLocalArgs: the callee's declared frame consists only of
// contents(p) items over its own slice parameters, and at this call every such
// parameter is passed a slice this function allocated itself (make / local
// array): the call writes nothing that existed when this function was entered,
// so it does not break the caller's own `pure`.
func (t *FnTrans) writesOnlyLocalArgs(x *ssa.Call, callee *ssa.Function, con *Contract) bool {
	if len(con.Modifies) == 0 || len(con.Preserves) > 0 || callee == nil {
		return false
	}
	args := x.Common().Args
	for _, item := range con.Modifies {
		if !strings.HasPrefix(item, "contents(") || !strings.HasSuffix(item, ")") {
			return false
		}
		pn := strings.TrimSpace(item[len("contents(") : len(item)-1])
		found := false
		sig := callee.Signature
		off := 0
		if sig.Recv() != nil {
			off = 1
		}
		for i := 0; i < sig.Params().Len(); i++ {
			if sig.Params().At(i).Name() == pn && i+off < len(args) {
				if !rootIsLocal(args[i+off]) {
					return false
				}
				found = true
			}
		}
		if !found {
			return false
		}
	}
	return true
}

// ----------------------------------------------------------- site hooks ---

func (t *FnTrans) siteHook(kind string, in ssa.Instruction, b *ssa.BasicBlock, idx int, st *HeapState, reach string) {
	if t.con == nil || len(t.con.Sites) == 0 {
		return
	}
	var text string
	switch x := in.(type) {
	case *ssa.Call:
		text = t.callText(x)
	case *ssa.Return:
		text = ""
	default:
		text = t.srcText(in.Pos())
	}
	if os.Getenv("GOVC_DEBUG_SITES") != "" {
		fmt.Fprintf(os.Stderr, "site-debug hook kind=%s text=%q\n", kind, text)
	}
	for _, s := range t.con.Sites {
		if s.Kind != kind {
			continue
		}
		if s.Text != "" && !siteTextMatch(kind, text, s.Text) {
			continue
		}
		if t.siteOrdinal(s, kind, in) != s.Ordinal {
			continue
		}
		t.sitesMatched[s] = true
		env := t.pointEnv(b, idx, st.clone(), nil)
		env.guard = reach
		// call sites: arguments are visible as arg0, arg1, ...
		if c, ok := in.(*ssa.Call); ok {
			for i, a := range c.Common().Args {
				env.vars[fmt.Sprintf("arg%d", i)] = t.val(a)
			}
			if kind == "callret" {
				// hook after the call: its value(s) are visible as result / resultN
				rv := t.val(c)
				if rv.K == VTuple {
					for i, v := range rv.Sub {
						env.vars[fmt.Sprintf("result%d", i)] = v
					}
					if len(rv.Sub) > 0 {
						env.vars["result"] = rv.Sub[0]
					}
				} else {
					env.vars["result"], env.vars["result0"] = rv, rv
				}
			}
		}
		if ms, ok := in.(*ssa.MakeSlice); ok {
			// make([]T, len, cap): arg1 is the length, arg2 the capacity
			env.vars["arg1"], env.vars["arg2"] = t.val(ms.Len), t.val(ms.Cap)
		}
		if r, ok := in.(*ssa.Return); ok {
			for i, a := range r.Results {
				env.vars[fmt.Sprintf("result%d", i)] = t.val(a)
			}
		}
		if sto, ok := in.(*ssa.Store); ok {
			// store (hook runs before the instruction): the value being stored
			env.vars["value"] = t.val(sto.Val)
		}
		if mu, ok := in.(*ssa.MapUpdate); ok {
			// map update (hook runs before the instruction): the key and the value being stored
			env.vars["key"], env.vars["value"] = t.val(mu.Key), t.val(mu.Value)
		}
		if lk, ok := in.(*ssa.Lookup); ok {
			// map read (hook runs after the instruction): value / ok of the lookup
			v := t.val(lk)
			env.vars["key"] = t.val(lk.Index)
			if v.K == VTuple && len(v.Sub) == 2 {
				env.vars["value"], env.vars["ok"] = v.Sub[0], v.Sub[1]
			} else {
				env.vars["value"] = v
			}
		}
		for _, c := range s.Assumes {
			t.assumps = append(t.assumps, Assump{Guard: reach, F: Formula{Clause: c, Env: env}, Why: "site assume (UNCHECKED)"})
		}
		for _, h := range s.Hints {
			func() {
				defer func() {
					if r := recover(); r != nil {
						if ee, ok := r.(*exprError); ok {
							if strings.Contains(ee.msg, "stale identifier") {
								t.staleClauses = append(t.staleClauses, fmt.Sprintf("hint: %s:%d: %s", h.File, h.Line, ee.msg))
							} else {
								t.contractErrors = append(t.contractErrors, fmt.Sprintf("%s:%d: %s", h.File, h.Line, ee.msg))
							}
							return
						}
						panic(r)
					}
				}()
				if term, ok := t.toIdx(env.eval(h.Expr)); ok {
					t.idxTerms[term] = true
				}
			}()
		}
		for _, c := range s.Asserts {
			lbl := c.Label
			if lbl == "" {
				lbl = normText(c.Text)
			}
			t.addObl("assert", fmt.Sprintf("%s%s#%d:%s", s.Kind, s.Text, s.Ordinal, lbl), reach, Formula{Clause: c, Env: env}, in.Pos(), c.Text)
		}
		for _, g := range s.Ghosts {
			// ghostset ghost(obj,"name") = expr
			tex, err := parser.ParseExpr(g.Target)
			if err != nil {
				continue
			}
			ce, ok := tex.(*ast.CallExpr)
			if !ok || (len(ce.Args) != 2 && len(ce.Args) != 3) {
				continue
			}
			func() {
				defer func() {
					if r := recover(); r != nil {
						if ee, ok := r.(*exprError); ok {
							if strings.Contains(ee.msg, "stale identifier") {
								t.staleClauses = append(t.staleClauses, fmt.Sprintf("ghostset: %s:%d: %s", g.Value.File, g.Value.Line, ee.msg))
							} else {
								t.contractErrors = append(t.contractErrors, fmt.Sprintf("%s:%d: %s", g.Value.File, g.Value.Line, ee.msg))
							}
							return
						}
						panic(r)
					}
				}()
				o := env.eval(ce.Args[0])
				if o.K == VConst {
					o = scalar(nil, "0")
				}
				if len(ce.Args) == 3 {
					// ghostset ghostat(obj, index, "name") = expr : one element of a ghost sequence
					ix, okIdx := t.toIdx(env.eval(ce.Args[1]))
					lit3, okLit := ce.Args[2].(*ast.BasicLit)
					if !okIdx || !okLit || o.K != VScalar {
						panic(&exprError{"ghostset ghostat(obj, index, \"name\") expects an object, an integer index and a string literal"})
					}
					gname := strings.Trim(lit3.Value, "\"")
					gt := t.W.ghostType(gname)
					v := t.materialize(env.eval(g.Value.Expr), gt)
					srt := arraySort("Int", arraySort(t.mode.idxSort(), t.mode.scalarSort(gt)))
					arr := t.heapGet(st, "GA."+gname, srt)
					t.heapSet(st, "GA."+gname, srt, sx("store", arr, o.S, sx("store", sx("select", arr, o.S), ix, v.S)))
					return
				}
				lit := ce.Args[1].(*ast.BasicLit)
				gname := strings.Trim(lit.Value, "\"")
				gt := t.W.ghostType(gname)
				v := t.materialize(env.eval(g.Value.Expr), gt)
				srt := arraySort("Int", t.mode.scalarSort(gt))
				arr := t.heapGet(st, "G."+gname, srt)
				t.heapSet(st, "G."+gname, srt, sx("store", arr, o.S, v.S))
			}()
		}
	}
}

func (t *FnTrans) callText(x *ssa.Call) string {
	pos := x.Pos()
	if !pos.IsValid() {
		return ""
	}
	file := t.W.fileOf(t.fn, pos)
	if file == nil {
		return ""
	}
	var found *ast.CallExpr
	ast.Inspect(file, func(n ast.Node) bool {
		if n == nil || found != nil {
			return false
		}
		if n.Pos() > pos || n.End() < pos {
			return false
		}
		if ce, ok := n.(*ast.CallExpr); ok && ce.Lparen == pos {
			found = ce
			return false
		}
		return true
	})
	if found == nil {
		return ""
	}
	return nodeText(t.W.fset, found)
}

// invokeContractCall: call through an interface with an assumed contract.
func (t *FnTrans) invokeContractCall(x *ssa.Call, c *ssa.CallCommon, con *Contract, args []Val, st *HeapState, reach string) {
	name := c.Method.FullName()
	t.assumedUsed[name] = true
	sig := c.Method.Type().(*types.Signature)
	vars := map[string]Val{}
	for i := 0; i < sig.Params().Len() && i < len(args); i++ {
		p := sig.Params().At(i)
		vars[p.Name()] = t.materialize(args[i], p.Type())
	}
	pre := &Env{t: t, st: st.clone(), vars: vars, pkg: c.Method.Pkg(), callee: true}
	pre.old = pre
	for k, cl := range con.Requires {
		t.addObl("requires@call", c.Method.Name()+":"+fmt.Sprint(k+1), reach, Formula{Clause: cl, Env: pre}, x.Pos(), cl.Text)
	}
	if !con.Pure {
		t.frameCheck("call:"+name, x.Pos(), reach)
		t.replaceState(st, t.havocAllKeepGhost(st))
	}
	res := t.havocVal(x.Type(), "ret."+c.Method.Name())
	t.setVal(x, res)
	post := &Env{t: t, st: st.clone(), vars: map[string]Val{}, pkg: pre.pkg, old: pre, guard: reach, callee: true}
	for k, v := range vars {
		post.vars[k] = v
	}
	if sig.Results().Len() == 1 {
		post.vars["result"], post.vars["result0"] = res, res
	} else if res.K == VTuple {
		for i, v := range res.Sub {
			post.vars[fmt.Sprintf("result%d", i)] = v
			if i == 0 {
				post.vars["result"] = v
			}
		}
	}
	for _, cl := range con.Ensures {
		t.assumps = append(t.assumps, Assump{Guard: reach, F: Formula{Clause: cl, Env: post}, Why: "ensures of " + name + " (ASSUMED)"})
	}
}

// siteOrdinal: 1-based rank of the instruction among all instructions of the
// function that match the site's kind and text, in source order.
func (t *FnTrans) siteOrdinal(s *SiteSpec, kind string, in ssa.Instruction) int {
	if t.siteRanks == nil {
		t.siteRanks = map[*SiteSpec]map[ssa.Instruction]int{}
	}
	if m, ok := t.siteRanks[s]; ok {
		return m[in]
	}
	type cand struct {
		in  ssa.Instruction
		pos token.Pos
		ord int
	}
	var cs []cand
	n := 0
	for _, b := range t.fn.Blocks {
		for _, i2 := range b.Instrs {
			n++
			var text string
			ok := false
			switch x := i2.(type) {
			case *ssa.Call:
				if kind == "call" || kind == "callret" {
					text, ok = t.callText(x), true
				}
			case *ssa.MakeSlice, *ssa.MakeMap, *ssa.MakeChan:
				// the builtin make(...) is addressed like a call: `site call make #n`
				// (n counts the make expressions of the function in source order;
				// arg1 / arg2 are the length and the capacity of a slice)
				if kind == "call" {
					text, ok = t.srcText(i2.Pos()), true
				}
			case *ssa.Alloc:
				if kind == "call" && x.Comment == "makeslice" {
					text, ok = t.srcText(x.Pos()), true
				}
			case *ssa.Store:
				if kind == "store" {
					text, ok = t.srcText(x.Pos()), true
					if os.Getenv("GOVC_DEBUG_SITES") != "" {
						fmt.Fprintf(os.Stderr, "site-debug store text=%q pos=%v\n", text, t.W.fset.Position(x.Pos()))
					}
				}
			case *ssa.MapUpdate:
				if kind == "mapupdate" {
					text, ok = t.srcText(x.Pos()), true
				}
			case *ssa.Lookup:
				if kind == "mapread" {
					text, ok = t.srcText(x.Pos()), true
				}
			case *ssa.IndexAddr:
				if kind == "index" {
					text, ok = t.srcText(x.Pos()), true
				}
			case *ssa.Index:
				if kind == "index" {
					text, ok = t.srcText(x.Pos()), true
				}
			case *ssa.Return:
				if kind == "return" {
					text, ok = "", true
				}
			}
			if !ok {
				continue
			}
			if s.Text != "" && !siteTextMatch(kind, text, s.Text) {
				continue
			}
			cs = append(cs, cand{i2, i2.Pos(), n})
		}
	}
	sort.SliceStable(cs, func(i, j int) bool {
		if cs[i].pos != cs[j].pos {
			return cs[i].pos < cs[j].pos
		}
		return cs[i].ord < cs[j].ord
	})
	m := map[ssa.Instruction]int{}
	for i, c := range cs {
		m[c.in] = i + 1
	}
	t.siteRanks[s] = m
	return m[in]
}

// siteTextMatch: calls match on the complete callee expression (the text up
// to the opening parenthesis); other kinds match on a prefix of the statement.
func siteTextMatch(kind, text, want string) bool {
	if !strings.HasPrefix(text, want) {
		return false
	}
	if kind == "call" || kind == "callret" {
		return len(text) > len(want) && text[len(want)] == '('
	}
	return true
}

// siteMatchesInstr: does the site specification select this instruction?
func (t *FnTrans) siteMatchesInstr(s *SiteSpec, in ssa.Instruction) bool {
	kind := ""
	switch x := in.(type) {
	case *ssa.Call, *ssa.MakeSlice, *ssa.MakeMap, *ssa.MakeChan:
		kind = "call"
	case *ssa.Alloc:
		if x.Comment == "makeslice" {
			kind = "call"
		}
	case *ssa.Store:
		kind = "store"
	case *ssa.MapUpdate:
		kind = "mapupdate"
	case *ssa.Return:
		kind = "return"
	case *ssa.Lookup:
		kind = "mapread"
	case *ssa.IndexAddr, *ssa.Index:
		kind = "index"
	}
	if kind == "call" && s.Kind == "callret" {
		kind = "callret"
	}
	if kind == "" || kind != s.Kind {
		return false
	}
	return t.siteOrdinal(s, kind, in) == s.Ordinal
}

// sprintfConfinement: the C19 sanitiser discipline for paths built with
// fmt.Sprintf.  When the format is a literal without ".." and every argument
// is a string that is a trusted directory or a safe name, the result is a
// confined path.  (String-level rule decided on the literal text; the
// predicates are the uninterpreted ones of the lookups/dashboards contracts.)
// sprintfDashFields: identifiers built as fmt.Sprintf("%d-%v-%v", a, b, c).
// When the format literal is a dash-separated list of plain %d / %v verbs and an
// argument is a non-negative 64-bit integer, its decimal text contains no dash,
// so the k-th dash-separated field of the result reads back that argument:
// dashField<k>(result) == arg_k.  (String-level rule decided on the literal
// format; dashField<k> are the uninterpreted functions contracts refer to as
// uf("dashField<k>", int64, s).)  Used for C13: the tenant is its own field of
// a stream id, so ids of different tenants differ.
func (t *FnTrans) sprintfDashFields(x *ssa.Call, c *ssa.CallCommon, args []Val, res Val, st *HeapState, reach string) {
	if len(c.Args) != 2 {
		return
	}
	fc, ok := c.Args[0].(*ssa.Const)
	if !ok || fc.Value == nil || fc.Value.Kind() != constant.String {
		return
	}
	parts := strings.Split(constant.StringVal(fc.Value), "-")
	if len(parts) < 2 {
		return
	}
	for _, p := range parts {
		if p != "%d" && p != "%v" {
			return
		}
	}
	sl := args[1]
	n, isConst := constLen(t, sl)
	if sl.K != VSlice || !isConst || n != len(parts) {
		return
	}
	tyOf := t.declareFun("iface.type", []string{"Iface"}, "Int")
	srt := arraySort("Int", arraySort(t.mode.idxSort(), "Iface"))
	arr := t.heapGet(st, "B.Iface", srt)
	s64 := t.mode.intSort(64)
	var facts []string
	for k := 0; k < n; k++ {
		e := sx("select", sx("select", arr, sl.Sub[0].S), t.addIdx(sl.Sub[1].S, t.mode.intLit64(int64(k), 64)))
		field := t.declareFun(fmt.Sprintf("uf.dashField%d.Str", k), []string{"Str"}, s64)
		for _, ty := range []types.Type{types.Typ[types.Int64], types.Typ[types.Int], types.Typ[types.Uint64], types.Typ[types.Uint]} {
			un := t.declareFun("unbox."+typeKey(ty), []string{"Iface"}, s64)
			cond := eq(sx(tyOf, e), t.typeTag(ty))
			if _, signed, _ := intInfo(ty); signed {
				cond = and(cond, t.cmpIdx(">=", sx(un, e), t.mode.intLit64(0, 64)))
			}
			facts = append(facts, implies(cond, eq(sx(field, res.S), sx(un, e))))
		}
	}
	t.assume(reach, and(facts...), "fmt.Sprintf with a dash-separated list of integer verbs: each non-negative integer argument is read back from its field")
}

// sprintfAnchoredRegex: fmt.Sprintf("^(%v)$", p) (or "^(?:%v)$" / %s) is the
// fully anchored form of the regular expression p: the group keeps a top-level
// alternation inside the anchors.  Contracts refer to the fact as
// uf("fullyAnchored", bool, result, p).  (String-level rule decided on the
// literal format; used for C09: PromQL regex matchers are fully anchored.)
func (t *FnTrans) sprintfAnchoredRegex(x *ssa.Call, c *ssa.CallCommon, args []Val, res Val, st *HeapState, reach string) {
	if len(c.Args) != 2 {
		return
	}
	fc, ok := c.Args[0].(*ssa.Const)
	if !ok || fc.Value == nil || fc.Value.Kind() != constant.String {
		return
	}
	switch constant.StringVal(fc.Value) {
	case "^(%v)$", "^(%s)$", "^(?:%v)$", "^(?:%s)$":
	default:
		return
	}
	sl := args[1]
	n, isConst := constLen(t, sl)
	if sl.K != VSlice || !isConst || n != 1 {
		return
	}
	tyOf := t.declareFun("iface.type", []string{"Iface"}, "Int")
	un := t.declareFun("unbox."+typeKey(types.Typ[types.String]), []string{"Iface"}, "Str")
	anch := t.declareFun("uf.fullyAnchored.Str_Str", []string{"Str", "Str"}, "Bool")
	srt := arraySort("Int", arraySort(t.mode.idxSort(), "Iface"))
	arr := t.heapGet(st, "B.Iface", srt)
	e := sx("select", sx("select", arr, sl.Sub[0].S), sl.Sub[1].S)
	t.assume(reach, implies(eq(sx(tyOf, e), t.typeTag(types.Typ[types.String])), sx(anch, res.S, sx(un, e))), "fmt.Sprintf(\"^(%v)$\", p) is the fully anchored form of the regular expression p")
}

func (t *FnTrans) sprintfConfinement(x *ssa.Call, c *ssa.CallCommon, args []Val, res Val, st *HeapState, reach string) {
	if len(c.Args) != 2 {
		return
	}
	fc, ok := c.Args[0].(*ssa.Const)
	if !ok || fc.Value == nil || fc.Value.Kind() != constant.String {
		return
	}
	format := constant.StringVal(fc.Value)
	if strings.Contains(format, "..") {
		return
	}
	sl := args[1]
	n, isConst := constLen(t, sl)
	if sl.K != VSlice || !isConst || n > 8 {
		return
	}
	t.declare("iface.nil", "Iface")
	tyOf := t.declareFun("iface.type", []string{"Iface"}, "Int")
	un := t.declareFun("unbox."+typeKey(types.Typ[types.String]), []string{"Iface"}, "Str")
	safe := t.declareFun("uf.safeName.Str", []string{"Str"}, "Bool")
	trusted := t.declareFun("uf.trustedDir.Str", []string{"Str"}, "Bool")
	confined := t.declareFun("uf.confined.Str", []string{"Str"}, "Bool")
	srt := arraySort("Int", arraySort(t.mode.idxSort(), "Iface"))
	arr := t.heapGet(st, "B.Iface", srt)
	var conds []string
	for k := 0; k < n; k++ {
		e := sx("select", sx("select", arr, sl.Sub[0].S), t.addIdx(sl.Sub[1].S, t.mode.intLit64(int64(k), 64)))
		str := sx(un, e)
		conds = append(conds, and(eq(sx(tyOf, e), t.typeTag(types.Typ[types.String])), or(sx(safe, str), sx(trusted, str))))
	}
	t.assume(reach, implies(and(conds...), sx(confined, res.S)), fmt.Sprintf("fmt.Sprintf(%q, trusted directories / safe names...) is a confined path (format literal has no dot-dot)", format))
}
